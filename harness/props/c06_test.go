//go:build verif

package props

import (
	"bufio"
	"bytes"
	"fmt"
	"sort"
	"strconv"
	"strings"
	"testing"
	"time"

	run "github.com/alibaba/RedisShake/redis-shake"
	utils "github.com/alibaba/RedisShake/redis-shake/common"
	conf "github.com/alibaba/RedisShake/redis-shake/configure"
	"github.com/alibaba/RedisShake/redis-shake/filter"
	"pgregory.net/rapid"

	"verif/harness/gen"
	"verif/harness/logcap"
	"verif/harness/mredis"
	"verif/harness/ref"
	"verif/harness/stats"
)

// ---- level 1: the predicates themselves ------------------------------------------------------------

func c06Predicates(t *rapid.T) {
	var keys []string
	for i := rapid.IntRange(1, 6).Draw(t, "nkeys"); i > 0; i-- {
		keys = append(keys, string(filterKey().Draw(t, "key")))
	}
	f := drawFilterConf(t, true, keys)
	if len(f.slots) > 1 && rapid.Bool().Draw(t, "shuffleSlots") {
		f.slots = rapid.Permutation(f.slots).Draw(t, "slotOrder")
	}
	f.apply()
	defer resetFilters()
	desc := fmt.Sprintf("%+v", f)
	for _, k := range keys {
		want := !isCheckpointKey(k) && f.listPass(k)
		if got := !filter.FilterKey(k); got != want {
			violation(t, "C06", "predicate:key", "filters %s: FilterKey(%q) lets it pass=%v, the configuration says pass=%v", desc, k, got, want)
			return
		}
		slot := ref.Slot([]byte(k))
		if got, want := !filter.FilterSlot(slot), f.slotPass(k); got != want {
			violation(t, "C06", "predicate:slot", "filters %s: FilterSlot(%d) (key %q) pass=%v, want %v", desc, slot, k, got, want)
			return
		}
		// the composition the full-sync path evaluates: the slot filter applied to the tool's own slot of the key
		if got, want := !filter.FilterSlot(int(utils.KeyToSlot(k))), f.slotPass(k); got != want {
			violation(t, "C06", "predicate:slot-of-key", "filters %s: key %q (cluster slot %d): FilterSlot(KeyToSlot(key)) pass=%v, want %v", desc, k, slot, got, want)
			return
		}
	}
	for _, db := range []int{0, 1, 2, 3, 10, 11, 12, 15, 19, 100, 101, 110, rapid.IntRange(0, 200).Draw(t, "db")} {
		if got, want := !filter.FilterDB(db), f.dbPass(db); got != want {
			violation(t, "C06", "predicate:db", "filters %s: FilterDB(%d) pass=%v, want %v", desc, db, got, want)
			return
		}
	}
	for _, cmd := range []string{"opinfo", "OPINFO", "OpInfo", "eval", "EVAL", "evalsha", "EvalSha", "script", "SCRIPT", "set", "evals", "scripts", "publish"} {
		l := strings.ToLower(cmd)
		want := l != "opinfo" && !(f.lua && (l == "eval" || l == "evalsha" || l == "script"))
		if got := !filter.FilterCommands(cmd); got != want {
			violation(t, "C06", "predicate:command", "filters %s: FilterCommands(%q) pass=%v, want %v", desc, cmd, got, want)
			return
		}
	}
	stats.C.Case(len(keys) >= 2 && (f.hasKeyFilter() || len(f.slots) > 0), stats.HashS(desc+strings.Join(keys, "\x00")), "predicates")
}

// ---- level 2: the same keyspace through the four data paths --------------------------------------------

type c06Key struct {
	db  int
	key string
}

type c06Space struct {
	keys     []c06Key
	incrCmds []int // per key: which command creates it in the incremental path
	// target.db of the incremental path (-1: keep the source database)
	incrTargetDB int
	incrMset     bool // keys that share a database arrive in one MSET
	scripts      int
	filt         filterConf
}

func (s c06Space) String() string {
	var ks []string
	for _, k := range s.keys {
		ks = append(ks, fmt.Sprintf("%d/%q", k.db, k.key))
	}
	return fmt.Sprintf("filters %+v scripts=%d incremental-target.db=%d keys=[%s]", s.filt, s.scripts, s.incrTargetDB, strings.Join(ks, " "))
}

func drawC06Space(t *rapid.T) c06Space {
	var s c06Space
	seen := map[string]bool{}
	for i := rapid.IntRange(2, 10).Draw(t, "nkeys"); i > 0; i-- {
		k := c06Key{db: rapid.SampledFrom([]int{0, 1, 2, 3, 10, 11, 15}).Draw(t, "db"), key: string(filterKey().Draw(t, "key"))}
		if k.key == "" || seen[k.key] {
			continue
		}
		seen[k.key] = true
		s.keys = append(s.keys, k)
		s.incrCmds = append(s.incrCmds, rapid.IntRange(0, 3).Draw(t, "incrCmd"))
	}
	if !seen["lua"] && rapid.IntRange(0, 4).Draw(t, "keyNamedLua") == 0 {
		// an ordinary key whose name equals the name of the script records
		s.keys = append(s.keys, c06Key{db: rapid.SampledFrom([]int{0, 1, 2}).Draw(t, "luadb"), key: "lua"})
		s.incrCmds = append(s.incrCmds, 0)
	}
	s.scripts = rapid.IntRange(0, 2).Draw(t, "scripts")
	s.incrTargetDB = rapid.SampledFrom([]int{-1, -1, 0, 1, 3}).Draw(t, "incrTargetDB")
	s.incrMset = rapid.Bool().Draw(t, "incrMset")
	var names []string
	for _, k := range s.keys {
		names = append(names, k.key)
	}
	s.filt = drawFilterConf(t, true, names)
	return s
}

// pass is the reference decision from the statement.
func (s c06Space) pass(path string, k c06Key) bool {
	f := s.filt
	if !f.dbPass(k.db) {
		return false
	}
	switch path {
	case "sync":
		return !isCheckpointKey(k.key) && f.listPass(k.key) && f.slotPass(k.key)
	case "restore":
		return !isCheckpointKey(k.key) && f.listPass(k.key)
	default: // incremental, rump: checkpoint keys are only excluded once a key filter is configured
		if f.hasKeyFilter() {
			return !isCheckpointKey(k.key) && f.listPass(k.key)
		}
		return true
	}
}

func (s c06Space) rdb() []byte {
	b := []byte("REDIS0009")
	for i := 0; i < s.scripts; i++ {
		b = append(b, gen.OpAux)
		b = gen.AppendRawString(b, []byte("lua"))
		b = gen.AppendRawString(b, []byte(fmt.Sprintf("return %d", i)))
	}
	keys := append([]c06Key{}, s.keys...)
	sort.SliceStable(keys, func(i, j int) bool { return keys[i].db < keys[j].db })
	cur := -1
	for _, k := range keys {
		if k.db != cur {
			b = append(b, gen.OpSelectDB)
			b = gen.AppendLen(b, uint64(k.db), 0)
			cur = k.db
		}
		b = append(b, gen.TString)
		b = gen.AppendRawString(b, []byte(k.key))
		b = gen.AppendRawString(b, []byte("v:"+k.key))
	}
	b = append(b, gen.OpEOF)
	return appendCRC(b)
}

func arrived(srv *mredis.Server) map[string]bool {
	out := map[string]bool{}
	for db := 0; db < 16; db++ {
		for _, k := range srv.Keys(db) {
			out[fmt.Sprintf("%d/%s", db, k)] = true
		}
	}
	return out
}

func countScripts(srv *mredis.Server) int {
	n := 0
	for _, c := range srv.LogCopy() {
		if c.Name == "script" {
			n++
		}
	}
	return n
}

func (s c06Space) compare(t fataler, path string, got map[string]bool, scripts int) bool {
	for _, k := range s.keys {
		id := fmt.Sprintf("%d/%s", k.db, k.key)
		want := s.pass(path, k)
		if got[id] != want {
			what := "did not reach the target although it is not excluded"
			if got[id] {
				what = "reached the target although the configuration excludes it"
			}
			cls := "key"
			if isCheckpointKey(k.key) {
				cls = "checkpoint-key"
			}
			return violation(t, "C06", fmt.Sprintf("path:%s:%s", path, cls), "%s: in %s, key %q of db %d %s", s, path, k.key, k.db, what)
		}
		delete(got, id)
	}
	for id := range got {
		return violation(t, "C06", "path:"+path+":surplus", "%s: in %s, %s is on the target but not in the source", s, path, id)
	}
	if scripts >= 0 {
		want := s.scripts
		if s.filt.lua || !s.filt.dbPass(0) {
			want = 0
		}
		if scripts != want {
			return violation(t, "C06", "path:"+path+":lua", "%s: in %s, %d scripts were loaded, want %d (filter.lua=%v)", s, path, scripts, want, s.filt.lua)
		}
	}
	return false
}

func c06Paths(t *rapid.T) {
	s := drawC06Space(t)
	if len(s.keys) == 0 {
		return
	}
	defer quietLog()()
	o := &conf.Options
	s.filt.apply()
	o.Parallel, o.TargetDB, o.KeyExists, o.BigKeyThreshold, o.TargetVersion, o.TargetReplace = 2, -1, "none", 500*1024*1024, "5.0.7", true
	defer func() { resetFilters(); o.Parallel = 1 }()
	rdbBytes := s.rdb()
	reg := func(srv *mredis.Server) {
		for _, k := range s.keys {
			srv.Register(gen.Payload(gen.TString, gen.AppendRawString(nil, []byte("v:"+k.key)), gen.DumpVersion), gen.Value{Kind: "string", Str: []byte("v:" + k.key)})
		}
	}
	// full sync
	{
		srv := newTarget(targetKinds[3])
		reg(srv)
		ds := newSyncer(0)
		var err error
		res := logcap.RunTree(func() {
			err = ds.VerifSyncRDBFile(bufio.NewReader(bytes.NewReader(rdbBytes)), []string{srv.Addr()}, "auth", tgtSentinel, int64(len(rdbBytes)), false)
		})
		if !res.Completed || err != nil {
			srv.Close()
			violation(t, "C06", "path:sync:failed", "%s: full sync failed: %v %v", s, err, res)
			return
		}
		got, sc := arrived(srv), countScripts(srv)
		srv.Close()
		if s.compare(t, "sync", got, sc) {
			return
		}
	}
	// restore mode
	{
		srv := newTarget(targetKinds[3])
		reg(srv)
		res := logcap.Run(func() {
			run.VerifRestoreRDBFile(0, bufio.NewReader(bytes.NewReader(rdbBytes)), []string{srv.Addr()}, "auth", tgtSentinel, int64(len(rdbBytes)), false)
		})
		if ab := logcap.Cap.TakeAbortsOf(func(a logcap.Abort) bool {
			return strings.Contains(a.Msg, "routine[") || strings.Contains(a.Msg, "restore")
		}); len(ab) > 0 || !res.Completed {
			srv.Close()
			violation(t, "C06", "path:restore:failed", "%s: restore failed: %v %v", s, res, ab)
			return
		}
		got, sc := arrived(srv), countScripts(srv)
		srv.Close()
		if s.compare(t, "restore", got, sc) {
			return
		}
	}
	// incremental sync: SELECT db; SET key; plus script commands and OPINFO
	{
		// a fixed target database does not change which keys pass (the db filter looks at the source database)
		c := incrConf{filt: s.filt, targetDB: s.incrTargetDB, senderCount: 1024, senderSize: 104857600}
		c.filt.slots = nil // the slot list only applies to the full phase
		c.apply()
		st := &incrStream{}
		var buf bytes.Buffer
		add := func(argv [][]byte) {
			encodeCmd(&buf, argv)
			st.cmds = append(st.cmds, srcCmd{argv: argv, end: int64(buf.Len())})
		}
		// keys of one database may also arrive in a single multi-key command (MSET): the filter then has to take the command apart
		viaMset := map[int]bool{}
		if s.incrMset {
			byDB := map[int][]int{}
			for i, k := range s.keys {
				byDB[k.db] = append(byDB[k.db], i)
			}
			dbs := make([]int, 0, len(byDB))
			for db := range byDB {
				dbs = append(dbs, db)
			}
			sort.Ints(dbs)
			for _, db := range dbs {
				if idx := byDB[db]; len(idx) >= 2 {
					add(bb("select", strconv.Itoa(db)))
					args := []string{"mset"}
					for _, i := range idx {
						args = append(args, s.keys[i].key, "v:"+s.keys[i].key)
						viaMset[i] = true
					}
					add(bb(args...))
				}
			}
		}
		for i, k := range s.keys {
			if viaMset[i] {
				continue
			}
			add(bb("select", strconv.Itoa(k.db)))
			// commands of different arity, all of which create the key (INCR: the key is the only argument)
			switch s.incrCmds[i] {
			case 0:
				add(bb("set", k.key, "v:"+k.key))
			case 1:
				add(bb("incr", k.key))
			case 2:
				add(bb("rpush", k.key, "a", "b"))
			default:
				add(bb("append", k.key, "x"))
			}
		}
		add(bb("select", "0"))
		add(bb("OPINFO", "x"))
		add(bb("EVAL", "return 1", "0"))
		add(bb("script", "load", "return 2"))
		st.bytes = buf.Bytes()
		srv := newIncrTarget()
		in := startIncr(srv, false, c08RunID, 0, 0)
		in.feed(st.bytes, nil, nil)
		want := 0
		for _, k := range s.keys {
			if s.pass("incremental", k) {
				want++
			}
		}
		in.waitApplied(want, 3*time.Second)
		time.Sleep(600 * time.Millisecond)
		got := arrived(srv)
		if s.incrTargetDB != -1 {
			// everything lands in the fixed database: map it back to the source database of the (unique) key name
			back := map[string]bool{}
			for id := range got {
				name := id[strings.Index(id, "/")+1:]
				src := id
				for _, k := range s.keys {
					if k.key == name && strings.HasPrefix(id, fmt.Sprintf("%d/", s.incrTargetDB)) {
						src = fmt.Sprintf("%d/%s", k.db, name)
					}
				}
				back[src] = true
			}
			got = back
		}
		var cmds []string
		for _, a := range in.observed() {
			cmds = append(cmds, a.name)
		}
		in.stop()
		go in.reap()
		s.filt.apply()
		if s.compare(t, "incremental", got, -1) {
			return
		}
		has := func(n string) bool {
			for _, c := range cmds {
				if c == n {
					return true
				}
			}
			return false
		}
		wantScripts := !s.filt.lua && s.filt.dbPass(0)
		if has("opinfo") || has("eval") != wantScripts || has("script") != wantScripts {
			violation(t, "C06", "path:incremental:commands", "%s: commands that reached the target: %v (OPINFO must never be forwarded; script commands iff filter.lua is off and db 0 passes)", s, cmds)
			return
		}
	}
	// rump
	{
		c := rumpConf{filt: s.filt, targetDB: -1, keyNumber: 3, threshold: 500 * 1024 * 1024, policy: "none"}
		c.filt.slots, c.filt.lua = nil, false
		c.apply()
		rs := &rumpScript{pages: map[int][]rumpPage{}, existing: map[int]bool{}}
		byDB := map[int][]int{}
		for i, k := range s.keys {
			v := gen.Value{Kind: "string", Str: []byte("v:" + k.key)}
			rs.keys = append(rs.keys, rumpKey{db: k.db, key: k.key, val: v, payload: gen.Payload(gen.TString, gen.AppendRawString(nil, v.Str), gen.DumpVersion), pttl: -1})
			byDB[k.db] = append(byDB[k.db], i)
		}
		for db, idx := range byDB {
			rs.dbs = append(rs.dbs, db)
			rs.pages[db] = []rumpPage{{keys: idx, cursor: 0}}
		}
		sort.Ints(rs.dbs)
		out, got := runRumpArrived(c, rs)
		resetRumpConf()
		s.filt.apply()
		if out.sig != "" && out.sig != "key-missing" && out.sig != "unexpected-key" {
			violation(t, "C06", "path:rump:failed", "%s: rump failed: %s %s", s, out.sig, out.msg)
			return
		}
		if s.compare(t, "rump", got, -1) {
			return
		}
	}
	mixed, ext := false, false
	n := 0
	for _, k := range s.keys {
		if s.pass("sync", k) {
			n++
		}
		for _, p := range append(append([]string{}, s.filt.keyWhite...), s.filt.keyBlack...) {
			if strings.HasPrefix(k.key, p) && k.key != p {
				ext = true
			}
		}
	}
	mixed = n > 0 && n < len(s.keys)
	dbs := map[int]bool{}
	for _, k := range s.keys {
		dbs[k.db] = true
	}
	nt := mixed && ext && len(dbs) >= 2
	stats.C.Case(nt, stats.HashS(s.String()), "four-paths")
	if nt && len(s.keys) <= 5 {
		stats.C.Sample("the same keyspace through full sync, restore, incremental sync and rump: " + s.String())
	}
}

// runRumpArrived is runRump returning the target's key set as well.
func runRumpArrived(c rumpConf, s *rumpScript) (rumpOutcome, map[string]bool) {
	var got map[string]bool
	rumpArrivedHook = func(tgt *mredis.Server) { got = arrived(tgt) }
	defer func() { rumpArrivedHook = nil }()
	o := runRump(c, s, 0)
	return o, got
}

var rumpArrivedHook func(*mredis.Server)

func TestC06(t *testing.T) {
	t.Run("predicates", func(t *testing.T) { rapid.Check(t, c06Predicates) })
}

func TestC06Paths(t *testing.T) { rapid.Check(t, c06Paths) }

func TestC06Regress(t *testing.T) {
	// fixed D19 (see C07): scripts must survive a key whitelist / slot list in full sync and restore
	s := c06Space{keys: []c06Key{{0, "a:1"}, {1, "b:1"}}, scripts: 1, filt: filterConf{keyWhite: []string{"a"}}}
	_ = utils.CheckpointKey
	o := &conf.Options
	s.filt.apply()
	o.Parallel, o.TargetDB, o.KeyExists, o.BigKeyThreshold = 1, -1, "none", 500*1024*1024
	defer resetFilters()
	srv := newTarget(targetKinds[3])
	defer srv.Close()
	srv.Register(gen.Payload(gen.TString, gen.AppendRawString(nil, []byte("v:a:1")), gen.DumpVersion), gen.Value{Kind: "string", Str: []byte("v:a:1")})
	rdbBytes := s.rdb()
	ds := newSyncer(0)
	var err error
	res := logcap.RunTree(func() {
		err = ds.VerifSyncRDBFile(bufio.NewReader(bytes.NewReader(rdbBytes)), []string{srv.Addr()}, "auth", tgtSentinel, int64(len(rdbBytes)), false)
	})
	if !res.Completed || err != nil {
		t.Fatalf("harness: %v %v", res, err)
	}
	s.compare(t, "sync", arrived(srv), countScripts(srv))
}
