# Per-property run configuration of the driver (./check). One entry per claimed property.
# quick/thorough: list of test-process runs: re = -test.run regexp, checks = rapid case
# count (split over shards), shards = parallel processes with different PRNG values.

PROPS = {}
HOOK_COMMITS = ["47c42dd", "a2d506f", "d83715b", "558481b", "3b471b4"]
NOT_CLAIMED = {}


def prop(pid, **kw):
    kw.setdefault("regress_re", "^Test%sRegress$" % pid)
    kw.setdefault("replay_re", "^Test%s$" % pid)
    PROPS[pid] = kw


prop("C10",
     title="RESP codec round-trips, rejects malformed input and counts bytes exactly",
     quick=[{"re": "^TestC10$", "checks": 3000}],
     thorough=[{"re": "^TestC10$", "checks": 400000, "shards": 8, "timeout": 1500},
               {"re": "^$", "fuzz": "^FuzzC10$", "fuzztime": "90s", "checks": 1, "exclusive": True, "timeout": 400}],
     rule="(retained, TestC10/retained) 2-40 values are encoded one after another (EncodeToBytes / MustEncodeToBytes) and every returned slice is compared with the reference only after the last one. (non-digit numbers) one-character numbers that are no digit, followed by the payload their byte value would announce, must be rejected. (shared backing, TestC10/shared) several values built over one byte slice are encoded one after another and the slice is scribbled on in between: every encoding equals the encoding of a private copy. rapid-generated RESP trees (depth<=4, all int64 incl. table boundaries, nil/empty/binary bulk, nil/empty arrays), "
          "streams of values + inline commands + keep-alive newlines read through bufio of generated size over a reader "
          "returning generated chunk sizes; constructed malformations (every proper prefix, CR/LF substitutions at structural "
          "positions, lengths < -1, non-numeric lengths, unknown type byte in array). Oracles: reference encoder "
          "(byte-exact), structural equality with nil/empty kept, decoder position == bytes consumed == reference end "
          "offset of each value, rest of stream untouched, every malformation returns an error. Non-trivial: round-trip of a "
          "nested array > 8 bytes; stream with >=3 items, >=1 keep-alive and >=1 nested array; malformed artefact >= 6 "
          "bytes; command with >= 2 args. Distinct = hash of the encoded bytes.",
     technique="property-based testing (rapid): round-trip + reference encoder differential + position/consumption invariant + constructed-malformation rejection; native go fuzzing of the decoder fixpoint in the thorough tier",
     level_text="Generated-input search with explicit oracles; thousands (quick) to hundreds of thousands (thorough) of cases plus a coverage-guided fuzz campaign. Right level: the codec is a pure function of bytes, so generated inputs with a byte-exact reference reach every branch cheaply; no absence claim.",
     level_note="Trusted: the harness' own 40-line reference RESP encoder and tree comparison; rapid's generators/shrinker. Bounds: depth<=4, arrays<=4 wide, bulk<=40 bytes, streams<=8 items.",
     assumptions=["simple strings/errors contain no CR or LF (RESP specification)",
                  "a replaced LF in the middle of an artefact is not 'malformed' (it joins two lines into another well-formed stream); only positionally checked LFs and the final LF are corrupted",
                  "lengths with a leading '+' (accepted by strconv) are not generated as malformations"])

prop("C15",
     title="Key-to-slot mapping follows the Redis Cluster specification",
     quick=[{"re": "^TestC15(Exhaustive)?$", "checks": 20000},
            {"re": "^TestC15Range$", "checks": 150},
            {"re": "^TestC15EndToEnd$", "checks": 2, "shards": 2, "timeout": 600}],
     thorough=[{"re": "^TestC15(Exhaustive)?$", "checks": 3000000, "shards": 6, "timeout": 1500},
               {"re": "^TestC15Range$", "checks": 40000, "shards": 4, "timeout": 1500},
               {"re": "^TestC15AllSingleSlots$", "checks": 1, "shards": 8, "timeout": 1500},
               {"re": "^TestC15EndToEnd$", "checks": 36, "shards": 6, "timeout": 1500}],
     rule="(1) exhaustive: every string over {'{','}','a','b'} of length 0..8 (87381 keys); (2) rapid-generated keys from a brace grammar "
          "(empty tags, unbalanced, nested, repeated, arbitrary bytes incl. invalid UTF-8); (3) slot ranges [l,r]: single slots, shard "
          "edges, random (thorough: all 16384 single-slot ranges). Oracles: utils.KeyToSlot == reference implementation of the Redis "
          "Cluster rule over a bit-by-bit CRC16/XMODEM; both private crc16 copies and go-cluster GetSlot (brace-free keys) == reference "
          "CRC16; ChoseSlotInRange key non-empty, reference slot in [l,r], excluded by filter.FilterKey under a generated key filter configuration (none, "
          "or a white/black list of 1-3 prefixes, some of which cover the checkpoint key and some of which do not mention it); findKeyInRange key in range; "
          "(4, TestC15EndToEnd) complete DbSyncer.Sync() runs of a cluster-shard syncer (slot ranges [0,5460], [0,0], [0,16383], [5461,10922], [10923,16383], "
          "[1,16383], [12866,12866], [16383,16383]; fake source + model target, resume on): every key the syncer stores a checkpoint under hashes into its own range. "
          "Non-trivial: key with >= 2 braces; range narrower than 4 slots. Distinct = hash of key / of (l,r).",
     technique="property-based testing (rapid) + exhaustive small-alphabet enumeration against a reference implementation of the Redis Cluster hash-slot rule (differential oracle)",
     level_text="Exhaustive over all brace layouts up to length 8 plus generated search; differential against an independent reference (bitwise CRC16, literal spec rule) self-checked on published check values. The function is pure, so this is the strongest testing-level evidence available; no absence claim beyond the enumerated space.",
     level_note="Trusted: ref.CRC16 (check value 0x31C3) and ref.Slot (checked on CLUSTER KEYSLOT examples from the specification). ChoseSlotInRange is only exercised with the checkpoint prefix, as the tool does.",
     assumptions=["keys are byte strings; Go strings with invalid UTF-8 are included",
                  "slot ranges satisfy 0<=l<=r<=16383 (as produced by cluster topology discovery)"])

prop("C01",
     title="RDB parsing delivers every key exactly, whatever its encoding",
     quick=[{"re": "^TestC01$", "checks": 4000},
            {"re": "^TestC01Big$", "checks": 7},
            {"re": "^TestC01BigThree$", "checks": 2},
            {"re": "^TestC01BigOther$", "checks": 4}],
     thorough=[{"re": "^TestC01$", "checks": 400000, "shards": 8, "timeout": 1500},
               {"re": "^TestC01Big$", "checks": 240, "shards": 6, "timeout": 1500},
               {"re": "^TestC01BigThree$", "checks": 60, "shards": 3, "timeout": 1500},
               {"re": "^TestC01BigOther$", "checks": 120, "shards": 3, "timeout": 1500},
               {"re": "^$", "fuzz": "^FuzzC01$", "fuzztime": "120s", "checks": 1, "exclusive": True, "timeout": 500}],
     rule="RDB files written by the harness' own RDB writer from a drawn logical keyspace: 0-4 databases (numbers up to 70000, "
          "repeated selectors), 0-8 keys each, every physical encoding (raw/int8/int16/int32/LZF strings and keys; list, set, "
          "zset text scores incl. +-inf, zset2, hash, zipmap incl. free bytes / len byte 254 / 253-prefixed lengths, ziplist "
          "list/zset/hash with every entry encoding and 1/5-byte prevlen, intset 16/32/64, quicklist, stream with cgroups/PEL/"
          "consumers and 64-bit ids), expiry s/ms, idle, freq, aux (incl. lua), resizedb, module-aux (all value opcodes), "
          "versions 1-9, 6/14/32-bit lengths canonical or wider; read through a fragmenting reader, via rdb.NewLoader or "
          "utils.NewRDBLoader. Big-hash cases: one hash of 16-40 MiB whose pair boundaries are placed exactly at / one byte "
          "around the 16 MiB chunk limit, on the last pair, or giving 2-3 chunks, between other keys. Oracle: expected record "
          "list known by construction (db, key, type, expireat ms, idle, freq, payload == type+exact value bytes+LE16(6)+"
          "reference CRC-64), lua records, Footer()==nil; chunks concatenate to the exact pair bytes, counts add up, next "
          "key intact. Non-trivial: >=2 records and (non-raw encoding or extra opcode or >1 db); every big-hash case. "
          "Distinct = hash of the file bytes.",
     technique="property-based testing (rapid) with a construction oracle: files are produced by an independent RDB writer, expected records are known by construction; structure-aware native fuzzing (rapid.MakeFuzz) in the thorough tier",
     level_text="Generated-input search against a byte-exact construction oracle over all encodings the statement lists; thousands of files per quick run, hundreds of thousands plus coverage-guided fuzzing in thorough; chunk-limit boundaries are placed by construction rather than hoped for.",
     level_note="Trusted: the harness RDB writer (gen/rdb.go, gen/rdbfile.go) and ref.CRC64. Bounds: <=8 keys/db, collections <=300 elements except the big hash, ziplist <65535 entries; 64-bit lengths only for numbers >= 2^32; files always carry the 8-byte checksum trailer.",
     assumptions=["files always end with EOF opcode + 8-byte CRC (also under header versions 1-4)",
                  "a zero checksum (rdbchecksum no) is not generated",
                  "NaN text scores (byte 253) are not generated: Redis never stores NaN scores",
                  "module value types 6/7 are outside the stated domain"])

prop("C11",
     title="Checksums are the Redis CRC-64 of the covered bytes; corruption is detected",
     quick=[{"re": "^TestC11$", "checks": 500},
            {"re": "^TestC11Concurrent$", "checks": 120, "shards": 2}],
     thorough=[{"re": "^TestC11$", "checks": 120000, "shards": 12, "timeout": 1700},
               {"re": "^TestC11Concurrent$", "checks": 20000, "shards": 4, "timeout": 1700}],
     rule="(concurrent parsers, TestC11Concurrent) 2-4 parsers run at the same time (the tool runs one per source node), one over a file of 64 KiB-2 MiB strings, the others over files of many small keys: every payload each emits carries the reference CRC-64 of exactly its own bytes. (digest) byte strings 0-64000 bytes with 1-8 generated write boundaries through pkg/rdb/digest, the in-repo cupcake crc64 "
          "and the module copy linked by verifyDump/CheckVersionChecksum: Sum64/Sum/Reset/Digest == reference CRC-64 (Jones, reflected, "
          "init 0; derived bit-by-bit, check value e9c6d914c4b8d9ca). (rdb) small RDB files written locally so that every pure data "
          "position (raw string contents, expiry values, the 8 checksum bytes) is known: intact file loads, and for EVERY such position "
          "one substituted byte value makes the load fail; plus whole-trailer replacements (zero, all ones, +1, byte-swapped). (payload) "
          "DUMP payloads produced by the parser from generated files and by rdb.EncodeDump: verify under rdb.DecodeDump/verifyDump and "
          "utils.CheckVersionChecksum, trailer == reference CRC; every single-byte substitution at EVERY position, versions 7..65535 "
          "with recomputed CRC, every length < 10 and every truncation of the trailer are rejected by both checkers. Non-trivial: digest "
          "input >= 9 bytes in >= 2 writes; file with >= 3 keys; payload >= 14 bytes. Distinct = hash of the artefact.",
     technique="property-based testing (rapid): differential against a reference CRC-64 over generated chunkings; per-artefact exhaustive single-byte fault injection with an accept/reject oracle",
     level_text="Generated artefacts with exhaustive per-artefact substitution at all data/trailer positions (the evidence counts positions tried); reference CRC derived bit-by-bit from the polynomial. Testing-level: detects a wrong table entry, a skipped comparison, endianness/version-gate slips; no absence claim.",
     level_note="Trusted: ref.CRC64. Substitutions in RDB length/opcode bytes are excluded by construction (they change the parse, not just the data); one replacement value per position per artefact.",
     assumptions=["a payload that passes verifyDump but fails later in the value parser is not a checksum verdict (counted, left to C12)",
                  "an all-zero RDB checksum counts as 'checksum differs' and must be rejected (the tool refuses sources with rdbchecksum no)"])

prop("C12",
     title="Value and RDB-file serialisation round-trips through the parser",
     quick=[{"re": "^TestC12$", "checks": 4000},
            {"re": "^TestC12Huge$", "checks": 12, "shards": 2}],
     thorough=[{"re": "^TestC12$", "checks": 600000, "shards": 8, "timeout": 1700},
               {"re": "^TestC12Huge$", "checks": 800, "shards": 4, "timeout": 1700},
               {"re": "^$", "fuzz": "^FuzzC12$", "fuzztime": "120s", "checks": 1, "exclusive": True, "timeout": 500}],
     rule="(huge containers, TestC12Huge) intsets and ziplist-encoded lists / hashes / sorted sets with 65534-70000 elements (the intset count is 32-bit, the ziplist count saturates at 65535 and the entries must be walked), decoded and compared with the logical value; the file round trip also draws scores from every float64 class (NaN, -0). (encdec) logical values String/List/Set/Hash/ZSet (0-300 elements; arbitrary bytes, integer-looking strings at the int8/16/24/32/64 "
          "limits, leading zeros/signs/spaces, lengths 62-65/252-256/300; scores from all float64 bit patterns incl. NaN, -0, subnormals, "
          "+-inf): DecodeDump(EncodeDump(v)) == v with order, NaN==NaN, sign of zero kept. (compact) the same logical values serialized by "
          "the harness in every compact encoding (ziplist list/zset/hash with every entry encoding, intset 16/32/64, zipmap incl. zmlen 254, "
          "free bytes, items of 252-256/300/70000 bytes, quicklist, LZF blobs, int strings): DecodeDump == the value it was built from (lists "
          "ordered, sets/hashes/zsets as sets/maps). (entry) BinEntry.ObjEntry().BinEntry() keeps db/key/type/expireat and the value. (file) "
          "rdb.NewEncoder over 0-10 (db,key,expiry,object) with dbs up to 70000 in any order -> NewLoader returns the same list, Footer()==nil. "
          "Non-trivial: >=2 elements (compact: and a compact encoding); file with >=3 objects in >=2 dbs. Distinct = hash of payload/file bytes.",
     technique="property-based testing (rapid): round-trip oracle and construction oracle (payloads built from a known logical value by an independent writer); structure-aware native fuzzing in the thorough tier",
     level_text="Generated-input search over all encodings with oracles that know the expected logical value by construction; boundary dictionaries for integer strings and lengths. Testing-level evidence over a very large but bounded input family.",
     level_note="Trusted: gen/rdb.go writer (ziplist/intset/zipmap/quicklist layouts transcribed from Redis' ziplist.c/intset.c/zipmap.c), sameObj comparison. Bounds: <=300 elements, ziplists <65535 entries.",
     assumptions=["NaN scores are only generated for the EncodeDump round trip (Redis never stores NaN)",
                  "sets, hashes and sorted sets decoded from compact encodings are compared as sets/maps (Redis materialises unordered structures); lists keep order"])

prop("C09",
     title="The pipe is a lossless, deadlock-free FIFO byte stream with exact close rules",
     timing=True,
     quick=[{"re": "^TestC09$", "checks": 4000},
            {"re": "^TestC09Concurrent$", "checks": 1200, "shards": 4}],
     thorough=[{"re": "^TestC09$", "checks": 400000, "shards": 8, "timeout": 1700},
               {"re": "^TestC09Concurrent$", "checks": 80000, "shards": 8, "timeout": 1700}],
     rule="(sequential) rapid state machine (t.Repeat) over Write(k)/Read(k)/zero-length read/Buffered/Available/writer Close|CloseWithError/"
          "reader CloseWithError on memory pipes of 1,2,3,5 alignment units (requests aligned or not) and file pipes of 1 or 3 x 4 MiB; chunk sizes "
          "around 1, cap-1, cap, cap+1, cap/2+-1, cap/3; only non-blocking calls are issued; model = stream counters + two close flags; after every "
          "call: returned n/err, content (position-dependent byte pattern), Buffered, Available compared with the model; drain-then-writer's-error "
          "and closed-pipe/reader-error rules. (concurrent) one writer and one reader goroutine run generated scripts (writes up to 2*cap+3, reads, "
          "yields/sleeps, 'fill': after freeing space the pipe must refill to capacity or the writer finish within 8 s, 'drain': what was written "
          "must be consumed within 8 s, reader close at a generated point, writer close with/without error); oracle: bytes read == prefix of the "
          "stream, complete + writer's error after a normal close, writer fails with the reader's error after reader close, no side parked in the "
          "condition variable past the limit (confirmed from goroutine stacks). Non-trivial: sequential run with >=1 ring wrap and a writer close "
          "with buffered data; concurrent run moving more bytes than the capacity. Distinct = hash of the op history / scripts.",
     technique="stateful property-based testing (rapid state machine vs a FIFO reference model) + generated two-goroutine schedules with bounded-wait wake-up oracles",
     level_text="Model-based generated histories for the sequential semantics (every return value checked against the model after every step) and generated schedules for wake-ups; the Go scheduler's interleavings are sampled, not enumerated.",
     level_note="Trusted: the FIFO model in c09_test.go. Blocking calls are issued only in the concurrent part. Bounded waiting (8 s) stands in for 'woken by progress'; a miss is reported only when goroutine stacks show a side parked in the pipe's sync.Cond.",
     assumptions=["one writer and one reader (as the statement says)",
                  "a Read may return any 1<=n<=min(len, buffered) bytes; only content and order are fixed"])

prop("C18",
     title="The backlog ring returns the bytes written at an offset, or says they are gone",
     timing=True,
     quick=[{"re": "^TestC18$", "checks": 3000},
            {"re": "^TestC18Waiters$", "checks": 1500, "shards": 3},
            {"re": "^TestC18Writers$", "checks": 300},
            {"re": "^TestC18ReadDuringWrite$", "checks": 300, "shards": 2}],
     thorough=[{"re": "^TestC18$", "checks": 300000, "shards": 8, "timeout": 1700},
               {"re": "^TestC18Waiters$", "checks": 100000, "shards": 8, "timeout": 1700},
               {"re": "^TestC18Writers$", "checks": 100000, "shards": 4, "timeout": 1700},
               {"re": "^TestC18ReadDuringWrite$", "checks": 20000, "shards": 4, "timeout": 1700}],
     rule="(liveness) after zero-length writes (and every 16th other write) the next call must return within 3 s. (sizes) file-backed rings with capacities far from any block alignment and empty-buffer reads at valid, evicted and future offsets are part of the single-goroutine machine. (read during a write, TestC18ReadDuringWrite) two readers keep reading offsets spread over the retained range while one Write larger than the ring is stored piecewise (optionally slowed through the hook): every read that succeeds returns the bytes written at its offset. Waiters also face 4 writes in a row (2-8 readers that read, wait again and must be woken again). (concurrent writers, TestC18Writers) 2-4 goroutines issue 2-5 writes each (sizes 1 to ring+5, each filled with a byte value of its own; optionally every partial store write slowed through the hook backlog.VerifSlowWrite): whatever the order, the retained log is a sequence of whole writes - no write's bytes appear in two places. (sequential) rapid state machine over Write(k) (k from 0 to 2*cap+5, so many wrap-arounds), ReadAt(k,o) with o drawn around rpos-3..rpos+3, "
          "wpos-3..wpos+3, the middle, 0 and random, NewReader, Reader.Read, IsValid, SeekTo (to the current offset, around the range edges), Offset, "
          "DataRange, Close; memory backlogs of 1,2,3,5 alignment units and file backlogs of 1 or 3 x 4 MiB; model = total written + capacity + "
          "position-dependent byte pattern; the caller's buffer is overwritten right after every Write (it owns it again); only calls the model says cannot block are issued, those beyond the write position under a 3 s watchdog. After every call: invalid-offset error iff o > wpos or o+cap < wpos, "
          "else 1<=n<=min(k,wpos-o) bytes equal to what was written at o; DataRange == (max(0,wpos-cap), wpos); validity <=> rpos<=seek<=wpos; "
          "reads/writes after Close fail. (waiters) 1-5 readers (ReadAt or Reader.Read) block at the write position, then a write (<= cap) or Close "
          "(file backend, one case in six: optionally after the owner has already closed the backing file, so that the truncation inside Close fails; one close in three with the "
          "store's own close slowed to 20 ms through the hook backlog.VerifSlowClose, which widens the window between waking the readers and the store being closed): "
          "all must return within 8 s with the data / with an error (goroutine stacks decide between defect and harness trouble). Non-trivial: "
          "sequential run with >= 2x capacity written and both valid and invalid-offset reads; waiter case with >= 2 readers. Distinct = hash of history.",
     technique="stateful property-based testing (rapid state machine vs an absolute-offset reference model) + generated multi-reader wake-up scenarios",
     level_text="Model-based generated histories: every return value is compared with the model after every step, offsets are drawn around the exact validity boundaries modulo capacity; wake-ups by bounded waiting with stack confirmation.",
     level_note="Trusted: the offset model in c18_test.go. Zero-length reads and DataRange/validity after Close are left unspecified (the statement does not fix them). CloseWithError's custom error is not demanded (the statement asks for 'an error').",
     assumptions=["ReadAt at exactly the write position blocks and is issued only in the waiter scenarios",
                  "a waiting reader may legitimately get invalid-offset when a single write larger than the capacity overwrites its offset; waiter writes are <= capacity"])

prop("C13",
     title="Key filtering rewrites multi-key commands without corrupting them",
     quick=[{"re": "^TestC13(Enumerate)?$", "checks": 20000},
            {"re": "^TestC13Huge$", "checks": 40}],
     thorough=[{"re": "^TestC13(Enumerate)?$", "checks": 3000000, "shards": 8, "timeout": 1700},
               {"re": "^TestC13Huge$", "checks": 2000, "shards": 4, "timeout": 1700}],
     rule="(retained result) the rewritten argument list of one command is compared again after the next command (a DEL of 1-6 keys) has been filtered. (huge commands, TestC13Huge) MSET/MSETNX/DEL/UNLINK/PFMERGE with 32767-70000 keys (up to 140000 arguments), passing and filtered keys interleaved with period 2/3/7/1000, white or black list, against the same reference rewrite. (enumeration) every command of the tool's table x every valid key count 1..5 x every pass/fail pattern of its keys x {blacklist, "
          "whitelist}, with values for MSET pairs, trailing options, BITOP's operation, B[LR]POP's timeout; (random) rapid-drawn command, key "
          "count, key contents (prefixes of / equal to / extending the listed prefixes, checkpoint-prefixed keys, arbitrary bytes, option values "
          "that look like keys), 0-3 prefixes as whitelist or blacklist or no filter, commands outside the table. Oracle: reference rewrite written "
          "from the statement over a key-position table transcribed from the Redis 5.0 command table (not from the repository): leading non-key "
          "args + each passing key with its companions in order + trailing args; dropped iff no key passes; unchanged when all pass / no filter / "
          "unknown command; a command of the tool's table missing from the reference is reported. Non-trivial: >=2 keys with a mixed outcome "
          "(enumeration) or >=2 keys with a filter (random). Distinct = hash of (command, args, filter).",
     technique="exhaustive enumeration over (command, arity, pass-pattern) + property-based testing (rapid) against a reference rewrite over an independently transcribed key-position table (differential oracle)",
     level_text="The finite (command x key count <= 5 x pass pattern x list kind) space is enumerated completely on every run; argument contents are generated. The oracle does not read the repository's table, so a wrong table entry is a disagreement.",
     level_note="Trusted: ref.KeySpecs (Redis 5.0 server.c first/last/step) and ref.KeySpec.Rewrite. Two-key fixed-arity commands (rename, smove, rpoplpush) are rewritten per the statement even though the result may be an invalid Redis command: that is what the statement prescribes.",
     assumptions=["commands arrive lower-cased as redis.ParseArgs delivers them",
                  "argument lists have a valid arity for the command (as a master emits them)"])

prop("C02",
     title="Restoring an entry leaves the target key equal to the source key",
     quick=[{"re": "^TestC02$", "checks": 5000},
            {"re": "^TestC02Chunked$", "checks": 6},
            {"re": "^TestC02ChunkedThree$", "checks": 2},
            {"re": "^TestC02Lua$", "checks": 200}],
     thorough=[{"re": "^TestC02$", "checks": 1200000, "shards": 12, "timeout": 1700},
               {"re": "^TestC02Chunked$", "checks": 400, "shards": 5, "timeout": 1700},
               {"re": "^TestC02ChunkedThree$", "checks": 60, "shards": 3, "timeout": 1700},
               {"re": "^TestC02Lua$", "checks": 20000, "timeout": 1700}],
     rule="(regression tier, besides the repaired defects) a ziplist of 65540 entries and an intset of 65536-69001 members on the element-by-element route. entry x configuration x target state. Entry: every type/encoding of the RDB generator (incl. stream, quicklist, zipmap, ziplist, intset, "
          "LZF), collection sizes at 1,2,3,63-65,99-101,199-201,300, expiry none/past/future against the shifted clock, idle/freq hints, keys with "
          "hash tags. Configuration (sanitiser post-conditions): target.version fetched (full string, big_key_threshold in {1,len-1,len,len+1,500MB}) "
          "or configured ('5','5.0','5.0.7'... => threshold 1), TargetReplace by the sanitiser's prefix rule, key_exists in {none,rewrite,ignore}, "
          "time shift 0,+-1h,+-400d, replace_hash_tag. Target: model Redis 2.8/3.2/4.0/5.0/6.0/7.0 over loopback TCP (REPLACE/IDLETIME/FREQ support, "
          "busy-key wording, value types rejected with 'Bad data format' per version), key absent / present with same or other type, with/without ttl. "
          "Oracle: model keyspace after utils.RestoreRdbEntry: success => logical value equal (payload registry: a payload that is not byte-identical to "
          "the entry's payload is flagged) and ttl within [ExpireAt-t_after, ExpireAt-t_before] (expired => 1 ms, none => none); existing key: rewrite "
          "=> source value, none => error and target untouched, ignore => no error and untouched; no abort. Chunked: a 16-40 MiB hash from the real "
          "parser restored chunk by chunk. Routes are classified from the command log (route x policy x existing cells in the evidence). "
          "Non-trivial: pre-existing key, or a route other than a single RESTORE, or an expiry. Distinct = hash of (payload, key, case description).",
     technique="property-based testing (rapid) against a reference model of Redis (model-based oracle over the resulting keyspace and command log)",
     level_text="Generated search over entry x configuration x target-state with a model Redis that follows redis-5 restoreCommand ordering; every reachable route x policy cell is counted in the evidence. Testing-level: found six genuine defects on the pinned tree (all fixed).",
     level_note="Trusted: harness/mredis (model Redis), the RDB generator, ref.CRC64. The tool's real redigo connection over loopback TCP is used. Stream entries to targets older than 5.0 and empty collections are excluded by construction (counted).",
     assumptions=["a configured target.version names the target's real major version",
                  "NaN scores are not generated (Redis never stores them)",
                  "ucloud key prefix stripping (source.rdb.special_cloud) is not exercised"])

prop("C14",
     title="Resume picks its own source's newest checkpoint and reads what the sender wrote",
     timing=True,
     quick=[{"re": "^TestC14$", "checks": 2500},
            {"re": "^TestC14EndToEnd$", "checks": 4, "shards": 2, "timeout": 600}],
     thorough=[{"re": "^TestC14$", "checks": 900000, "shards": 10, "timeout": 1700},
               {"re": "^TestC14EndToEnd$", "checks": 72, "shards": 6, "timeout": 1700}],
     rule="histories of 0-10 checkpoint writes into a model target (loopback TCP): sources drawn from a set with prefix-related addresses "
          "(h:637 / h:6379 / h:63790, 10.0.0.1:6379 / 10.0.0.1:63791 / 10.0.0.11:6379) and foreign sources whose address ends with an own address (xh:637, 110.0.0.1:6379, my-h:6379), dbs 0-15, strictly increasing offsets per source (some "
          "> 2^33), run id + version with the first write into a db (as the sender does) or rewritten later, version in {1,0,2,absent}, partially "
          "written (no run id) and cleared run ids, user data in further dbs, plain or suffixed checkpoint key name. Oracle: reference resume rule "
          "from the statement over the final state (greatest own offset; its run id and db, or '?'/-1 when it lacks a run id; -1 when none; refused "
          "when its version < required) compared with checkpoint.LoadCheckpoint; afterwards own run-id/offset fields are gone from every other db "
          "and every other field/key is byte-identical. Sender/loader agreement on real sender output is checked in C04 and, here, by TestC14EndToEnd: "
          "complete DbSyncer.Sync() runs (fake source + model target) that start from a checkpoint left by an earlier run and are answered with +CONTINUE "
          "or with a FULLRESYNC under a new run id; afterwards checkpoint.LoadCheckpoint must return the run id the sender ran under and the last offset it stored. Non-trivial: prefix-related "
          "sources present and own checkpoints in >= 2 dbs. Distinct = hash of the history.",
     technique="property-based testing (rapid): generated write histories against a reference resume rule (model oracle) and a frame condition over the target keyspace",
     level_text="Generated histories over the state space the statement names, with address sets built to contain prefix relations; the loader runs against a model Redis over TCP exactly as in production.",
     level_note="Trusted: harness/mredis (SELECT/EXISTS/HGETALL/HDEL/INFO keyspace) and the reference rule in c14_test.go. Equal offsets in two dbs are not generated (offsets are strictly increasing per source).",
     assumptions=["source addresses are host:port strings",
                  "the target is standalone (cluster checkpoint naming is covered by C15)"])

prop("C20",
     title="Source re-discovery selects a node that really is the master",
     timing=True,
     quick=[{"re": "^TestC20$", "checks": 1, "timeout": 300},
            {"re": "^TestC20Syncer$", "checks": 400},
            {"re": "^TestC20SyncerWindow$", "checks": 1, "timeout": 300},
            {"re": "^TestC20SyncE2E$", "checks": 30, "timeout": 300}],
     thorough=[{"re": "^TestC20$", "checks": 96, "shards": 12, "timeout": 1700},
               {"re": "^TestC20Syncer$", "checks": 120000, "shards": 4, "timeout": 1700},
               {"re": "^TestC20SyncerWindow$", "checks": 24, "shards": 12, "timeout": 1700},
               {"re": "^TestC20SyncE2E$", "checks": 1200, "shards": 4, "timeout": 1700}],
     rule="(error replies) command errors are the replies a server sends (ERR, LOADING, NOAUTH, BUSY, MASTERDOWN), chosen by node and attempt. (complete Sync() start, TestC20SyncE2E) DbSyncer.Sync() on a cluster source of 2-3 fake nodes where the configured node may have been demoted: the SYNC/PSYNC link must be opened to the node that reports master. (syncer over the whole retry window, TestC20SyncerWindow) batches of 4-8 syncers run DbSyncer.updateSlotTopology with the real back-off (~21 s): nodes that never report master (the update must not return as if a master had been found) or a node that reports master only from its 2nd-7th INFO round on (the update must return with exactly that node). one rapid case = a batch of 80-120 shard scripts run concurrently (the retry back-off sleeps 6+5+..+1 s, so a case costs ~21 s of wall "
          "time whatever its size): 1-6 nodes in any order (the configured source need not be the master), and for each node and each of the 7 "
          "attempts one of {master, slave, connect error, command error, INFO without role line, INFO with look-alike lines before the role line}; "
          "shapes: one master, promoted replica with dead old source, master appearing at attempt j, no master, several masters, fully random. "
          "The real slotSupervisor (maxRetries as in New) runs with an injected connection factory (hook). Oracle per script: error iff no node "
          "reports master in any attempt, and then every node was probed exactly 7 times; otherwise Source reported master in the first attempt "
          "that had one, Source+Slaves == the known nodes each once, unreachable/erroring nodes never chosen, elapsed <= back-off bound + 8 s. "
          "(syncer) the DbSyncer's own use at (re)start: 2-4 model nodes over TCP, a generated sequence of 1-5 fail-overs (roles reassigned, some nodes "
          "without a role line), updateSlotTopology after each: the syncer must hold the current master as source and every other node as replica. "
          "Non-trivial: master not first, or >=1 failing node, or no master; syncer sequence with >=2 master changes. Distinct = hash of the script.",
     technique="property-based testing (rapid) with generated per-node fault sequences injected through a connection factory; validity-predicate oracle over the returned topology",
     level_text="Generated fault sequences over the whole retry loop, batched to amortise the fixed back-off sleeps; about a hundred topologies per quick run, thousands in thorough.",
     level_note="Trusted: the script interpreter (factory) in c20_test.go. Hook: slotsupervisor.VerifNew replaces only the connection factory. updateSlotTopology's use of the result at sync start is exercised in the end-to-end checks, not here.",
     assumptions=["INFO replication replies are CRLF separated (as Redis emits them)"])

prop("C17",
     title="Decode mode prints every element of the RDB, recoverably",
     quick=[{"re": "^TestC17$", "checks": 500, "shards": 2},
            {"re": "^TestC17Chunked$", "checks": 8, "shards": 4}],
     thorough=[{"re": "^TestC17$", "checks": 60000, "shards": 12, "timeout": 1700},
               {"re": "^TestC17Chunked$", "checks": 240, "shards": 6, "timeout": 1700}],
     rule="RDB files from the C01 generator restricted to classic types in every encoding (ziplist/intset/zipmap/quicklist/LZF/int strings), binary "
          "keys/fields/members (non-printable, invalid UTF-8), scores incl. +-inf and -0, 0-3 dbs (numbers up to 70000), expiries, aux/resizedb/"
          "module-aux, lua scripts; parallel = 1..8; plus (TestC17Chunked) files holding one hash of 16-40 MiB between small keys, its size placed exactly on, one byte either side of, "
          "and well beyond the loader's 16 MiB chunk limit (two and three chunks), parallel 1..4; the real CmdDecode.decode on temp files. Oracle: the output parsed line by line as JSON and "
          "reduced to (db,type,expireat,key64,index|field64|member64,value64|score bits) must equal, as a multiset, the expected lines built from the "
          "logical values (one per string / list element with index / hash field / set member / zset member / script); base64 fields byte-exact, "
          "scores numerically equal (a non-finite score may be a string); no abort; the call returns. Non-trivial: >=1 non-printable key, >=3 value "
          "types, parallel >= 2. Distinct = hash of (file, parallel).",
     technique="property-based testing (rapid): construction oracle (expected multiset of output lines known from the generated logical values) over generated files and worker counts",
     level_text="Generated files x worker counts with a multiset-equality oracle; worker schedules are whatever the Go runtime produces for 1-8 workers (sampled).",
     level_note="Trusted: the RDB generator and the line canonicaliser. The aux line's value64 is accepted raw or base64 (the statement only demands the line). Hashes beyond the 16 MiB chunk limit made decode abort (D12, repaired by 3067d8e); they are generated by TestC17Chunked and replayed in the regression tier.",
     assumptions=["NaN scores are not generated",
                  "line order across keys is unspecified; per-list indexes are checked through the index field"])

prop("C05",
     title="The RDB/command-stream hand-off loses and duplicates no byte",
     timing=True,
     quick=[{"re": "^TestC05$", "checks": 800, "shards": 4},
            {"re": "^TestC05Full$", "checks": 30},
            {"re": "^TestC05Dump$", "checks": 300, "shards": 3}],
     thorough=[{"re": "^TestC05$", "checks": 120000, "shards": 12, "timeout": 1700},
               {"re": "^TestC05Full$", "checks": 1500, "shards": 3, "timeout": 1700},
               {"re": "^TestC05Dump$", "checks": 6000, "shards": 3, "timeout": 1700}],
     rule="reply framing: 0-5 leading newlines, '+FULLRESYNC <40 hex> <offset>' or '+CONTINUE' in random letter case, 0-5 newlines before '$<n>', n from 1 to "
          "40000 (full path 300000; thorough up to 40 MiB) at 1,2,7,8191-8193,16384 and random, RDB and command bytes made of protocol look-alikes ('\\n', "
          "'\\r\\n', '$5\\r\\n', '+CONTINUE\\r\\n', PING frames, 0x00, 0xff); the byte stream is split at generated positions (always candidates within +-2 of the "
          "RDB/command boundary, inside/around the '$n' header, in the middle of the RDB and 9 bytes before its end, at 8192 multiples) with generated inter-segment delays (dump mode: up to 40 ms, so that the RDB tail and the first command bytes arrive in a read of their own; one dump in three writes to a path that already holds a longer file), sent by a fake source over loopback "
          "TCP, and additionally fragmented on the reader side by a wrapper that caps each Read at scripted sizes; bufio sizes 16-65536, pipe 1-16 units, "
          "consumer read sizes/pauses scripted (back-pressure). Component level: utils.SendPSyncContinue + DbSyncer.runIncrementalSync; full path: the "
          "real sendPSyncCmd (32 MiB buffers); dump mode: dbDumper.dump to a temp file. Oracle: bytes read from the pipe == RDB||commands exactly, no "
          "surplus; returned run id/offset/size == announced (CONTINUE: offset unchanged, PSYNC carried offset+1); DbSyncer.sourceOffset == announced; "
          "dump file == RDB, returned size == n, bytes still in the returned reader are a prefix of the command bytes. Non-trivial: >=2 splits with one "
          "within +-2 bytes of the boundary or inside the header. Distinct = hash of (stream, case description).",
     technique="property-based testing (rapid) with a scripted fake replication source: generated framings x fragmentations x timings, byte-exact stream oracle",
     level_text="Generated framings, split points and timings against the real handshake/copy code over real sockets; reader-side fragmentation is exact (decided by the generator), sender-side segmentation is requested from the kernel.",
     level_note="Trusted: harness/fsrc and the fragmenting conn wrapper. Left-over tool goroutines end through the tool's own reconnect/abort path against a listener that closes at once.",
     assumptions=["+CONTINUE is only answered to a PSYNC that names the source's run id and a real offset (as a master does)",
                  "the announced run id is compared case-sensitively; only the keywords are case-folded"])

prop("C07",
     title="Parallel full sync restores every key exactly once into the right database",
     timing=True,
     regress_re="^TestC07(Chunked)?Regress$",
     quick=[{"re": "^TestC07$", "checks": 1200, "shards": 4},
            {"re": "^TestC07Slow$", "checks": 12, "shards": 4},
            {"re": "^TestC07Chunked$", "checks": 5}],
     thorough=[{"re": "^TestC07$", "checks": 360000, "shards": 12, "timeout": 1700},
               {"re": "^TestC07Slow$", "checks": 480, "shards": 8, "timeout": 1700},
               {"re": "^TestC07Chunked$", "checks": 300, "shards": 6, "timeout": 1700}],
     rule="generated RDB (0-6 dbs in any order from 0..15, 0-6 keys each, every classic encoding, lua scripts, aux/resizedb/module-aux) x parallel 1..8 x "
          "target.db in {-1,0,3} x target version 5.0.7 (RESTORE ... REPLACE) or 6.0.5 (the tool's rule turns REPLACE off: rewrite becomes DEL + RESTORE) x db/key/slot(sync only)/lua filters x key_exists x pre-existing target keys x RESTORE or element route x an injected "
          "error reply for one key x a schedule script: the model target (loopback TCP) holds every connection's next command at a gate; a scheduler "
          "waits until all workers have connected, then releases one waiting connection at a time, chosen by the generated sequence, once all open "
          "connections are waiting; rarely nothing listens at the target address (every worker fails to connect: the run must report a failure); rarely (and in every TestC07Slow case) one reply is held back for 1.25-2.3 s, past the tool's one-second progress tick, so that the whole file has been read while entries are still unwritten. Real DbSyncer.syncRDBFile / dbRestorer.restoreRDBFile. Oracle at return time: every record that passes the reference "
          "filter is in its source db (or target.db) with the source value, restored exactly once, nothing else written, existing keys untouched under "
          "ignore, SCRIPT LOAD count == scripts passing filter.lua; busy key under none or an injected error => sync returns an error / restore mode "
          "aborts. Chunked: one hash of 16-40 MiB (boundaries placed around the chunk limit) restored by 2-4 workers under a generated schedule, with/without "
          "a pre-existing key under rewrite: all fields present, none stale (D14, repaired by 58b799a: the first chunk's DEL could be overtaken by a later chunk's fields; the regression tier replays that interleaving deterministically). "
          "Non-trivial: parallel>=2, writes in >=3 dbs over >=2 connections; chunks written over >=2 connections. Distinct = hash of (case, schedule, release order).",
     technique="property-based testing (rapid) with a generated schedule script driving a gated model target (controlled interleaving of worker connections); model-based oracle over keyspace and command log",
     level_text="Generated inputs x configurations x command-level interleavings chosen by the generator; which worker takes which entry is up to the Go runtime (observed in the log, not controlled).",
     level_note="Trusted: harness/mredis, the gate scheduler, the reference filter predicates. Which worker takes which chunk of a chunked hash is up to the runtime.",
     assumptions=["keys are unique per database (and across databases when target.db is fixed): an RDB cannot hold a key twice",
                  "a key never carries both IDLE and FREQ hints (Redis saves one or the other)"])

INCR_RULE = ("source command streams of up to 25 commands drawn from a grammar: SELECT (dbs 0,1,2,5,11, repeated), SET/MSET/APPEND/INCR/RPUSH/HSET/DEL/UNLINK/"
             "SUNIONSTORE/BITOP, opaque commands (XADD, PFADD, ZUNIONSTORE, ...), PING, MULTI..EXEC blocks (also empty, also with SELECT inside, and composed blocks: a transaction that "
             "hops into another - possibly filtered - database and ends there, optionally followed by a SELECT and a second transaction), PUBLISH __sentinel__:hello, EVAL/"
             "EVALSHA/SCRIPT, OPINFO, command names in any letter case, binary arguments, keep-alive newlines between commands; keys that are prefixes "
             "of / equal to / extend the filter prefixes or carry the checkpoint prefix; value types kept consistent per key name (a master only "
             "propagates commands that succeeded); delivered to the real DbSyncer.syncCommand through a pipe in generated fragments with pauses of "
             "0/20/120/480/520/700 ms (arrival before, on and after the 500 ms flush tick); configuration: db white/blacklist, key white/blacklist, "
             "filter.lua, target.db in {-1,0,2,5}, resume on/off (on => target.db -1; resumed streams start inside a passing db), sender.count in "
             "{1,2,3,7,1024}, sender.size in {1,64,65535,100MiB}; one rapid case = one configuration and a batch of 8-24 streams run concurrently, each "
             "against its own model target over loopback TCP. ")

prop("C03",
     title="Incremental sync forwards the filtered command stream in order, exactly once",
     timing=True,
     quick=[{"re": "^TestC03$", "checks": 24, "shards": 4, "timeout": 600},
            {"re": "^TestC03Volume$", "checks": 3, "timeout": 600}],
     thorough=[{"re": "^TestC03$", "checks": 2800, "shards": 14, "timeout": 1700},
               {"re": "^TestC03Volume$", "checks": 60, "shards": 2, "timeout": 1700}],
     rule="(filter lists) unset filter lists reach the tool as nil or as empty non-nil slices (what an empty configuration value leaves), drawn per case. (volume, TestC03Volume) one stream of 40000-70000 SET commands delivered in 1-4 pieces with metrics on and the delay queue at its unconfigured size (32) or 4096: every command reaches the target in order within 25 s. " + INCR_RULE + "Oracle: reference model written from the statement (source-selected db tracking, db filter, PING forwarded unless the selected db is filtered, OPINFO/lua/sentinel-hello/MULTI/EXEC never "
          "applied, reference key-filter rewrite from C13, destination db = source db or target.db) => expected sequence of (db, command, args); observed = "
          "the model target's command log in execution order with the db each command ran in (tool-own SELECT/MULTI/EXEC/checkpoint HSET and PING left out); "
          "sequences must be equal (order, exactly once, byte-identical args, right db) and complete within 5 s of the last source byte while the stream "
          "stays open; every command is applied within 2.5 s of its own delivery, also in 'trickle' batches (thresholds high, one command every 300-450 ms "
          "for 3-4 s, no barriers) where only the ticker can flush. Resumed streams may start inside a source MULTI block; SELECT may occur inside MULTI "
          "when resume is off. Non-trivial: >=2 SELECTs, >=1 filtered command, >=2 separate flushes. Distinct = hash of (configuration, stream, fragmentation).",
     technique="property-based testing (rapid): generated command streams x configurations x arrival timings against a reference model of the filtered stream (model-based oracle), batched instances",
     level_text="The real four-goroutine pipeline runs unmodified against a model target; the reference model is independent of the repository's tables. Parser/sender/ticker interleavings are sampled through generated arrival times, not enumerated.",
     level_note="Trusted: harness/mredis, ref.KeySpecs, the reference walker in incr_test.go. PING may or may not be forwarded (left out of the comparison). Bounded-response (5 s) stands in for 'within bounded time'.",
     assumptions=["a master only propagates commands that succeeded (streams are type-consistent)",
                  "a resumed stream starts in a database that passes the db filter (checkpoints are only written there)",
                  "with resume on, SELECT does not occur inside a source MULTI block"])

prop("C04",
     title="Checkpoints are atomic with the data, so resume loses and repeats nothing",
     timing=True,
     quick=[{"re": "^TestC04$", "checks": 12, "shards": 4, "timeout": 600},
            {"re": "^TestC04EndToEnd$", "checks": 2, "shards": 2, "timeout": 600}],
     thorough=[{"re": "^TestC04$", "checks": 2400, "shards": 12, "timeout": 1700},
               {"re": "^TestC04EndToEnd$", "checks": 72, "shards": 6, "timeout": 1700}],
     rule=INCR_RULE + "(end to end, TestC04EndToEnd) batches of 4-8 complete DbSyncer.Sync() runs (fake source + model target, as in C08) that start fresh or from a checkpoint left by an earlier run and answered with +CONTINUE, with an optional link drop: the data commands are applied exactly once and every stored checkpoint offset equals the source position of the last command applied with it. Restarts in the component check run against a target that also holds far-ahead checkpoints of sources whose address ends with / starts with ours. (component) Here resume is always on (target.db -1), start offsets 0 / 1000 / 2^33, user keys never carry the checkpoint prefix. For each stream: (a) the "
          "uninterrupted run must satisfy the C03 oracle; the exact byte stream the target received on the sender's connection is parsed into commands and "
          "EVERY prefix (cut between any two commands, inside or outside MULTI) is replayed into a fresh model with MULTI/EXEC semantics (a cut connection "
          "discards a queued transaction); at every cut: data applied == reference history restricted to source commands ending at or before the stored offset "
          "(no more, no less), the offset is a source position right after a command, run id + version present in the database holding the newest offset, "
          "checkpoint in the database the group's commands ran in. (b) for cuts inside a transaction, right after a SELECT, and 0-4 generated ones (<= 7 per "
          "stream, run concurrently): the cut state is loaded into a model target, the real checkpoint.LoadCheckpoint must return exactly what the sender "
          "stored (sender/loader agreement), a second syncer is started from (run id, offset, db) on the source suffix after offset, and every database must "
          "end with exactly the command sequence of the uninterrupted run (nothing lost, nothing twice, nothing in another db). Non-trivial: >=2 dbs, a source "
          "MULTI block, >=3 checkpointed groups. Distinct = hash of (configuration, stream, fragmentation, cuts). The evidence counts cut positions and restarts.",
     technique="property-based testing (rapid) + exhaustive per-run crash-point enumeration (every prefix of the recorded target command stream) against a reference model, and model-based restart comparison",
     level_text="Generated histories; for each, all cut positions of the byte stream the target actually received are enumerated and checked against the reference, and a sample of them is restarted through the real loader and syncer. Batching decisions of the sender are sampled via thresholds and arrival timing.",
     level_note="Trusted: harness/mredis (MULTI/EXEC atomicity, Exec replay), the reference walker. A process crash inside the tool equals a connection cut from the target's point of view (the tool keeps no durable state). DbSyncer.sourceOffset is constant here (no ACK goroutine): offset bookkeeping under ACK ticks is C08's.",
     assumptions=["source data never uses the tool's checkpoint key name",
                  "SELECT does not occur inside a source MULTI block",
                  "a cut before the first checkpoint leads to a full sync (outside this property)"])

prop("C16",
     title="Scan-based migration (rump) copies every scanned key faithfully",
     timing=True,
     quick=[{"re": "^TestC16$", "checks": 9, "shards": 3, "timeout": 600},
            {"re": "^TestC16BigTargetDB$", "checks": 2, "shards": 2, "timeout": 600},
            {"re": "^TestC16KeyFile$", "checks": 4, "timeout": 600},
            {"re": "^TestC16LongKeyFile$", "checks": 2, "timeout": 600},
            {"re": "^TestC16QoS$", "checks": 1, "timeout": 600}],
     thorough=[{"re": "^TestC16$", "checks": 1200, "shards": 12, "timeout": 1700},
               {"re": "^TestC16BigTargetDB$", "checks": 120, "shards": 4, "timeout": 1700},
               {"re": "^TestC16KeyFile$", "checks": 300, "shards": 3, "timeout": 1700},
               {"re": "^TestC16LongKeyFile$", "checks": 60, "shards": 3, "timeout": 1700},
               {"re": "^TestC16QoS$", "checks": 60, "shards": 6, "timeout": 1700}],
     rule="(long key files, TestC16LongKeyFile) key files of 180-600 further keys (5-20 KiB, beyond the line scanner's 4 KiB start buffer) read in batches of 5, 50 or 100 (the default) keys. one rapid case = one configuration and a batch of 8-20 executors run concurrently (QoS bucket and status ticker cost ~2 s per executor): model "
          "source keyspaces over 1-4 dbs (0..15), per db 1..2N keys (N = scan.key_number in {1,2,3,5,50}; counts N-1, N, N+1, 2N), values in every "
          "encoding with real DUMP payloads, PTTL none or positive, a SCAN script (any cursor sequence, empty pages, trailing empty page, page sizes "
          "1,2,N,N+3,all), keys vanishing between SCAN and DUMP or between DUMP and PTTL, big_key_threshold in {1,30,60,500MB} (so payloads fall on both "
          "sides), key_exists in {none,rewrite} with pre-existing target keys under rewrite, target.db in {-1,0,4}, db and key filters; key-file mode: one "
          "db, lines incl. multiples of the page size. Real dbRumperExecutor.exec with real redigo connections to model source and target. Oracle: the "
          "executor returns (12 s limit; an abort on any of its goroutines is reported as such); every key that passes the filters and did not vanish is in "
          "the same db (or target.db) with the source value and ttl == the PTTL the source reported (none stays none); vanished/filtered keys absent; "
          "nothing else written. Some batches use qps 2-5 with a source that answers one SCAN late (the rate limiter really limits). Rate limiter alone "
          "(utils.StartQoS, batches of 8-24 consumers): after any pattern of takes and idle periods a consumer that wants n tokens gets them within n/qps + 2.5 s. "
          "Non-trivial: >=2 dbs, an empty page and a vanished key; a rate-limiter script with an idle period >= 1 s. Distinct = hash of (configuration, script).",
     technique="property-based testing (rapid) with scripted model source (SCAN pagination adversary, vanish events) and model target; model-based oracle over the target keyspace; batched instances",
     level_text="Generated keyspaces x paginations x fault points against the real three-goroutine pipeline; about a hundred executors per quick run.",
     level_note="Trusted: harness/mredis, the SCAN/DUMP/PTTL script hook. SCAN duplicates and keys re-created between DUMP and PTTL are outside the stated domain. Pre-existing keys only under rewrite (under none a busy key aborts the run, which is a report, not a copy).",
     assumptions=["no duplicate keys across SCAN pages", "keys in a key file contain no line breaks"])

prop("C08",
     title="Offsets reported to the source are exactly 'start offset + bytes consumed'",
     timing=True,
     quick=[{"re": "^TestC08$", "checks": 2, "shards": 2, "timeout": 600},
            {"re": "^TestC08EndToEnd$", "checks": 2, "shards": 2, "timeout": 600}],
     thorough=[{"re": "^TestC08$", "checks": 144, "shards": 12, "timeout": 1700},
               {"re": "^TestC08EndToEnd$", "checks": 120, "shards": 10, "timeout": 1700}],
     rule="(second drop) in a quarter of the dropped histories the first reconnect is continued, carries no stream byte and is dropped again: every PSYNC must ask for the same exact position. (end to end) every batch holds a fresh start, a continued resume, a resume answered with a full resync under another run id and one under the same run id with another offset. (histories) one rapid case = a batch of 8-16 fake-source histories run concurrently against the real sendPSyncCmd/runIncrementalSync/pSyncPipeCopy: "
          "start offset in {0,57,2^33}, FULLRESYNC (small RDB) or CONTINUE, WaitFull closed 0-2.3 s after the handshake, a timeline of bursts (1-300 bytes) and "
          "idle gaps (0/0.2/0.6/1.1/2.5 s) spanning >= 3 ACK ticks, optionally one drop of the link (after everything sent was flushed) followed by 0-1 s of "
          "refused reconnects; the source answers the reconnect PSYNC as a master does (continues at the requested offset). The fake source records every "
          "REPLCONF ACK / PSYNC with the number of stream bytes it had sent by then. Oracle (timing-robust): ACK == 0 until the full phase is over; afterwards "
          "never ahead of start + bytes sent, never decreasing, never stale (what the source had handed to the socket 600 ms before the ACK arrived is acknowledged), and exact once the stream has been idle for > 2 ticks; reconnect PSYNC == <same run id> "
          "start + bytes sent before the drop + 1; the consumer of the pipe sees RDB || stream continue byte-exactly across the reconnect. (end to end) "
          "batches of 4-8 complete DbSyncer.Sync() runs with resume on against fake source + model target, starting fresh (PSYNC ? -1), from a checkpoint left by an "
          "earlier run that the source answers with +CONTINUE, or from one with an older run id that the source answers with FULLRESYNC under a new run id: LoadCheckpoint, PSYNC (first request checked), full sync of a small RDB, "
          "(the RDB optionally arrives in two pieces 60 ms apart; a run resumed with +CONTINUE may continue without a leading SELECT) "
          "then 5-18 commands (RPUSH/SELECT/PING, PING also in inline form, 0-2 keep-alive newlines in front of each) spread over >= 2.6 s with an optional drop: target applies exactly the source's commands once and in order, reconnect "
          "offset exact, and every checkpoint offset stored in the target == start (the resumed db announcement) or start + end position of the last source command forwarded up to and including its batch (not of a command still waiting), under the run id that produced it (checked against "
          "the number of data commands applied when it was stored). Non-trivial: >=2 ACKs or a drop; every end-to-end run. Distinct = hash of the script.",
     technique="property-based testing (rapid) with generated traffic/fault timelines against a recording fake replication source; history-invariant oracles over the recorded ACK/PSYNC trace; batched instances",
     level_text="Generated wall-clock histories spanning several acknowledgement ticks with injected link drops; the oracles are inequalities/equalities over the source-side trace that hold for every scheduling. A few dozen histories per quick run (each costs 4-8 s of wall time), thousands in thorough.",
     level_note="Trusted: harness/fsrc bookkeeping (bytes handed to the socket before a command was read). The full 32 MiB buffers of sendPSyncCmd are used. Behaviour over hours (retry counter reset) is out of reach.",
     assumptions=["the source closes a link only after its writes completed; the tool reads to EOF",
                  "after a drop the source answers PSYNC <runid> <o> with +CONTINUE and the bytes from offset o on"])

prop("C19",
     title="Configured passwords never appear in logs or status output",
     observation_is_proof=True,
     quick=[{"re": "^TestC19$", "checks": 3000},
            {"re": "^TestC19Paths$", "checks": 24, "shards": 3, "timeout": 600},
            {"re": "^TestC19EachPath$", "checks": 12, "shards": 4, "timeout": 600}],
     thorough=[{"re": "^TestC19$", "checks": 300000, "shards": 4, "timeout": 1700},
               {"re": "^TestC19Paths$", "checks": 2400, "shards": 12, "timeout": 1700},
               {"re": "^TestC19EachPath$", "checks": 240, "shards": 4, "timeout": 1700}],
     rule="(probe connections, path probe-connection) the default probe-connection factory against a live and a vanished node with passwords that end in characters special to URLs and formats; multi-word auth types (auth <user>) in path auth-type-unknown. (descriptor format, TestC19/node-format) generated shard descriptors (1-3 targets, 0-2 replicas, host:port addresses) with passwords that are random, empty, equal to each other or a >=6-character piece of one of the node's own addresses, formatted with %v, %+v, %s, as pointer, through Sprint, inside an error and through String(): every occurrence of a password text in the output must lie inside a printed address. (safe options) generated password strings (some empty) in the four password fields: JSON, %v and %+v renderings of conf.GetSafeOptions() contain none "
          "of them and the raw fields are masked. (paths) two distinct high-entropy sentinels are configured as source/target password everywhere (options, "
          "SyncNode, connection helpers); a rapid case draws a run path and a log level {none,error,warn,info,debug} and runs that path's driver from the other "
          "properties on generated inputs: single-entry restore (5 cases), parallel full sync / restore mode, incremental sync, resume with cut enumeration and "
          "restarts (checkpoint load included), checkpoint loading on generated histories, rump, source re-discovery with failing nodes, syncer fail-over "
          "sequences, PSYNC handshake/reconnect and dump, a complete DbSyncer.Sync() run (AUTH, checkpoint load, full sync, incremental, link drop and "
          "reconnect; fresh, resumed with +CONTINUE, resumed into a FULLRESYNC; the syncer's status document is scanned again after the run, i.e. after restarts), "
          "connections with an auth type the server does not know (the model servers answer as Redis >= 5 does, echoing the arguments of the unknown command), "
          "and the status documents (DbSyncer.GetExtraInfo, metric.NewMetricRest over it, configuration echo). TestC19EachPath gives every path its own share "
          "of cases; a path that fails or aborts is still scanned. Everything written to the tool's "
          "logger during the case and every status document is scanned for both sentinels. Every other property's check also scans its whole log (counter "
          "password_leaks_seen in its evidence). Non-trivial: a path run that produced >= 200 bytes of output. Distinct = hash of (path, level, bytes, time).",
     technique="property-based testing (rapid): generated run paths x log levels x inputs with a sentinel-scan oracle over everything the tool prints or serves",
     level_text="A leak needs a log statement on an exercised path that formats a structure holding a password: the check maximises exercised paths by reusing every other property's driver with sentinels configured, and scans all output. Statements on paths no driver reaches are not observed.",
     level_note="Trusted: logcap (it replaces log.StdLog, so every record of the tool's logger passes through the scanner). Not exercised: redis-shake/main (does not build), tencent/aliyun scanners, sentinel discovery, cluster targets, the HTTP server itself (its documents are built and scanned directly).",
     assumptions=["passwords are at least 6 characters (a 1-character password would match unrelated output)"])

prop("C06",
     title="Configured filters are honoured identically in every mode and phase",
     timing=True,
     quick=[{"re": "^TestC06$", "checks": 20000},
            {"re": "^TestC06Paths$", "checks": 40, "shards": 8, "timeout": 600}],
     thorough=[{"re": "^TestC06$", "checks": 2000000, "shards": 4, "timeout": 1700},
               {"re": "^TestC06Paths$", "checks": 1500, "shards": 12, "timeout": 1700}],
     rule="(slot spellings) slot lists are written as the configuration accepts them (plain, leading zero, leading +), the reference compares numbers. (predicates) filter configurations (db white|black list of numbers incl. 1/10/11, key white|black list of 1-3 prefixes from a small alphabet so that keys "
          "are prefixes of / equal to / extend them, slot lists in any order, filter.lua) x keys (arbitrary bytes, hash-tag shaped, equal to / extending / one byte "
          "short of the checkpoint prefix, empty first brace pair followed by a later tag) x db numbers up to 200 x command names in any letter case: filter.FilterKey/FilterDB/FilterSlot/FilterCommands == "
          "reference predicates written from the statement, and FilterSlot(KeyToSlot(key)) (the composition the full-sync path evaluates) == the reference decision for the key's specification slot. (paths) a keyspace of 2-10 (db,key) pairs with 0-2 Lua scripts and a filter configuration is pushed "
          "through the four real data paths against model targets: full sync (syncRDBFile on an RDB holding those keys), restore mode (restoreRDBFile), "
          "incremental sync (per key SELECT + one of SET / INCR (key is the only argument) / RPUSH / APPEND, plus OPINFO/EVAL/SCRIPT, through syncCommand) and rump (executor over a model source); the set of (db,key) that "
          "arrived must equal {x | pass(path,x)}: db lists exact, blacklist excludes any listed prefix, whitelist passes only listed prefixes, slot list only "
          "in full sync, checkpoint-prefixed keys excluded in full sync/restore always and elsewhere once a key filter is configured, scripts/script commands "
          "excluded exactly when filter.lua is set, OPINFO never forwarded. Non-trivial: both outcomes present, a key extending a listed prefix, >=2 dbs. "
          "Distinct = hash of (configuration, keyspace).",
     technique="property-based testing (rapid): differential against reference filter predicates, and a cross-path consistency oracle (the same generated keyspace through four real data paths)",
     level_text="Predicates are compared with a reference on tens of thousands of generated (configuration, key) pairs; path consistency is sampled (each case drives four real pipelines, ~2.5 s).",
     level_note="Trusted: the reference predicates in filterref_test.go, harness/mredis. Per-path oracles of C03/C07/C16 check the same decisions on much larger samples; this check adds the cross-path comparison on one keyspace.",
     assumptions=["at most one of whitelist/blacklist per kind (sanitiser post-condition)",
                  "in rump and incremental sync checkpoint-prefixed keys are only excluded once a key filter is configured (as the statement says)"])
