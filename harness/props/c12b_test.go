//go:build verif

package props

import (
	"fmt"
	"strconv"
	"testing"

	"github.com/alibaba/RedisShake/pkg/rdb"
	"pgregory.net/rapid"

	"verif/harness/gen"
	"verif/harness/logcap"
	"verif/harness/stats"
)

// c12Huge: compact containers whose element count crosses the 16-bit boundary: intsets of 65535-70000 members (32-bit
// count field) and ziplists of that many entries (the 16-bit count saturates at 65535 and the entries must be walked).
func c12Huge(t *rapid.T) {
	n := rapid.SampledFrom([]int{65534, 65535, 65536, 65537, 70000}).Draw(t, "n")
	kind := rapid.SampledFrom([]string{"set/intset", "list/ziplist", "zset/ziplist", "hash/ziplist"}).Draw(t, "kind")
	base := int64(rapid.SampledFrom([]int{0, -40000, 1 << 20, -(1 << 40)}).Draw(t, "base"))
	var v gen.Value
	var typ byte
	var body []byte
	switch kind {
	case "set/intset":
		vals := make([]int64, n)
		v.Kind = "set"
		for i := range vals {
			vals[i] = base + int64(i)
			v.Set = append(v.Set, []byte(strconv.FormatInt(vals[i], 10)))
		}
		typ, body = gen.TSetIntset, gen.AppendRawString(nil, gen.Intset(t, vals, nil))
	case "list/ziplist":
		v.Kind = "list"
		elems := make([][]byte, n)
		for i := range elems {
			elems[i] = []byte(strconv.FormatInt(base+int64(i), 10))
		}
		v.List = elems
		typ, body = gen.TListZiplist, gen.AppendRawString(nil, gen.Ziplist(t, elems, nil))
	case "zset/ziplist":
		v.Kind = "zset"
		m := n / 2
		elems := make([][]byte, 0, 2*m)
		for i := 0; i < m; i++ {
			mem := []byte(fmt.Sprintf("m%d", i))
			v.ZSet = append(v.ZSet, gen.ZE{Member: mem, Score: float64(i)})
			elems = append(elems, mem, []byte(strconv.Itoa(i)))
		}
		typ, body = gen.TZSetZiplist, gen.AppendRawString(nil, gen.Ziplist(t, elems, nil))
	default:
		v.Kind = "hash"
		m := n / 2
		elems := make([][]byte, 0, 2*m)
		for i := 0; i < m; i++ {
			f, val := []byte(fmt.Sprintf("f%d", i)), []byte(strconv.Itoa(i))
			v.Hash = append(v.Hash, gen.HE{Field: f, Value: val})
			elems = append(elems, f, val)
		}
		typ, body = gen.THashZiplist, gen.AppendRawString(nil, gen.Ziplist(t, elems, nil))
	}
	p := gen.Payload(typ, body, gen.DumpVersion)
	var o interface{}
	var err error
	res := logcap.Run(func() { o, err = rdb.DecodeDump(p) })
	desc := fmt.Sprintf("%s with %d elements (first %d)", kind, n, base)
	if !res.Completed || err != nil {
		violation(t, "C12", "decode-error:huge:"+kind, "%s not decoded: %v err=%v", desc, res, err)
		return
	}
	if d := sameObj(v, o, v.Kind == "list"); d != "" {
		violation(t, "C12", "decode-value:huge:"+kind, "%s decodes to another value: %s", desc, d)
		return
	}
	stats.C.Case(n >= 65536, stats.HashS(desc), "huge:"+kind)
}

func TestC12Huge(t *testing.T) { rapid.Check(t, c12Huge) }
