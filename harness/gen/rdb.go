package gen

// RDB / DUMP writer driven by a logical keyspace and a per-value choice of
// physical encoding. It never parses: expected results come from construction.

import (
	"bytes"
	"encoding/binary"
	"fmt"
	"math"
	"sort"
	"strconv"

	"pgregory.net/rapid"

	"verif/harness/ref"
)

// RDB value type bytes.
const (
	TString       = 0
	TList         = 1
	TSet          = 2
	TZSet         = 3
	THash         = 4
	TZSet2        = 5
	THashZipmap   = 9
	TListZiplist  = 10
	TSetIntset    = 11
	TZSetZiplist  = 12
	THashZiplist  = 13
	TQuicklist    = 14
	TStream       = 15
	OpModuleAux   = 0xf7
	OpIdle        = 0xf8
	OpFreq        = 0xf9
	OpAux         = 0xfa
	OpResizeDB    = 0xfb
	OpExpireMs    = 0xfc
	OpExpire      = 0xfd
	OpSelectDB    = 0xfe
	OpEOF         = 0xff
	DumpVersion   = 6 // rdb.ToVersion of the tool: version written into DUMP payload trailers
	MaxRdbVersion = 9
)

type ZE struct {
	Member []byte
	Score  float64
}
type HE struct{ Field, Value []byte }

// Value is the logical value of a key.
type Value struct {
	Kind string // string list set zset hash stream
	Str  []byte
	List [][]byte
	Set  [][]byte
	ZSet []ZE
	Hash []HE
}

func (v Value) Len() int {
	switch v.Kind {
	case "string":
		return 1
	case "list":
		return len(v.List)
	case "set":
		return len(v.Set)
	case "zset":
		return len(v.ZSet)
	case "hash":
		return len(v.Hash)
	}
	return 0
}

// Enc is one physical serialization of a Value.
type Enc struct {
	Type  byte
	Bytes []byte // exact value bytes as they appear in the file after the key
	Label string // e.g. "string/int8", "hash/ziplist"
	MinV  int    // minimal RDB format version in which this encoding exists
}

// Payload wraps value bytes as a DUMP payload: type ‖ bytes ‖ LE16(version) ‖ LE64(crc64).
func Payload(typ byte, val []byte, version uint16) []byte {
	b := make([]byte, 0, len(val)+11)
	b = append(b, typ)
	b = append(b, val...)
	b = binary.LittleEndian.AppendUint16(b, version)
	b = binary.LittleEndian.AppendUint64(b, ref.CRC64(0, b))
	return b
}

func (e Enc) Payload() []byte { return Payload(e.Type, e.Bytes, DumpVersion) }

// ---- lengths ------------------------------------------------------------------------

// LenForm: 0 canonical, 1 at least 14-bit, 2 at least 32-bit.
func AppendLen(b []byte, n uint64, form int) []byte {
	switch {
	case n < 64 && form == 0:
		return append(b, byte(n))
	case n < 16384 && form <= 1:
		return append(b, 0x40|byte(n>>8), byte(n))
	case n <= math.MaxUint32:
		b = append(b, 0x80)
		return binary.BigEndian.AppendUint32(b, uint32(n))
	default:
		b = append(b, 0x81)
		return binary.BigEndian.AppendUint64(b, n)
	}
}

func lenForm(t *rapid.T) int {
	return rapid.SampledFrom([]int{0, 0, 0, 0, 0, 0, 1, 2}).Draw(t, "lenform")
}

// ---- strings -------------------------------------------------------------------------

var intLooking = []string{"0", "1", "-1", "12", "13", "127", "128", "-128", "-129", "32767", "32768", "-32768", "-32769",
	"8388607", "8388608", "-8388608", "-8388609", "2147483647", "2147483648", "-2147483648", "-2147483649",
	"9223372036854775807", "-9223372036854775808", "9223372036854775808", "-0", "+1", "01", " 1", "1 ", "", "1e3", "0x10", "007"}

// Elem generates element/field/member/value contents.
func Elem() *rapid.Generator[[]byte] {
	return rapid.Custom(func(t *rapid.T) []byte {
		switch rapid.IntRange(0, 40).Draw(t, "ek") {
		case 40:
			// long string whose tail repeats its head: LZF back-references across more than 4096 bytes
			head := patBytes(rapid.Uint32().Draw(t, "farseed"), rapid.IntRange(40, 300).Draw(t, "farhead"))
			gap := patBytes(rapid.Uint32().Draw(t, "gapseed"), rapid.SampledFrom([]int{4000, 4096, 4200, 6000, 8100, 8191, 8300}).Draw(t, "fargap"))
			return append(append(append([]byte{}, head...), gap...), head...)
		case 0, 1, 10, 11, 20, 21, 30, 31:
			return []byte(rapid.SampledFrom(intLooking).Draw(t, "intlike"))
		case 2, 12, 22, 32:
			return []byte(strconv.FormatInt(rapid.Int64().Draw(t, "i64"), 10))
		case 3, 13, 23, 33:
			return []byte(strconv.FormatInt(int64(rapid.IntRange(-70000, 70000).Draw(t, "ismall")), 10))
		case 4, 14, 24, 34:
			// compressible
			unit := rapid.SliceOfN(rapid.Byte(), 1, 4).Draw(t, "unit")
			return bytes.Repeat(unit, rapid.IntRange(8, 120).Draw(t, "rep"))
		case 5, 15, 25, 35:
			return []byte(rapid.StringMatching(`[a-z0-9:{}_-]{1,16}`).Draw(t, "word"))
		case 6, 16, 26, 36:
			n := rapid.SampledFrom([]int{62, 63, 64, 65, 252, 253, 254, 255, 256, 300}).Draw(t, "blen")
			c := rapid.Byte().Draw(t, "fill")
			b := bytes.Repeat([]byte{c}, n)
			if n > 2 {
				b[n/2] = c + 1
			}
			return b
		default:
			return rapid.SliceOfN(rapid.Byte(), 0, 24).Draw(t, "raw")
		}
	})
}

// canonInt reports whether s is the canonical decimal form of an int64.
func canonInt(s []byte) (int64, bool) {
	if len(s) == 0 || len(s) > 20 {
		return 0, false
	}
	v, err := strconv.ParseInt(string(s), 10, 64)
	if err != nil || strconv.FormatInt(v, 10) != string(s) {
		return 0, false
	}
	return v, true
}

// AppendString appends one RDB string in a drawn physical encoding; returns label.
func AppendString(t *rapid.T, b []byte, s []byte) ([]byte, string) {
	choice := rapid.IntRange(0, 5).Draw(t, "senc")
	if v, ok := canonInt(s); ok && choice <= 3 {
		switch {
		case v >= math.MinInt8 && v <= math.MaxInt8 && choice <= 3:
			// Redis picks the narrowest; wider ones are legal for a reader
			w := rapid.IntRange(0, 2).Draw(t, "iw")
			if choice != 3 {
				w = 0
			}
			return appendIntEnc(b, v, w)
		case v >= math.MinInt16 && v <= math.MaxInt16:
			w := 1
			if choice == 3 {
				w = rapid.IntRange(1, 2).Draw(t, "iw")
			}
			return appendIntEnc(b, v, w)
		case v >= math.MinInt32 && v <= math.MaxInt32:
			return appendIntEnc(b, v, 2)
		}
	}
	if choice >= 4 && len(s) > 4 {
		c := ref.LZFCompress(s)
		lbl := "lzf"
		if c == nil || len(c) >= len(s) {
			if choice == 5 {
				c = ref.LZFLiteral(s)
				lbl = "lzf-literal"
			} else {
				c = nil
			}
		}
		if c != nil {
			b = append(b, 0xc3)
			b = AppendLen(b, uint64(len(c)), lenForm(t))
			b = AppendLen(b, uint64(len(s)), lenForm(t))
			return append(b, c...), lbl
		}
	}
	f := lenForm(t)
	b = AppendLen(b, uint64(len(s)), f)
	lbl := "raw"
	if f != 0 {
		lbl = "raw-widelen"
	}
	return append(b, s...), lbl
}

func appendIntEnc(b []byte, v int64, w int) ([]byte, string) {
	switch w {
	case 0:
		return append(b, 0xc0, byte(int8(v))), "int8"
	case 1:
		b = append(b, 0xc1)
		return binary.LittleEndian.AppendUint16(b, uint16(int16(v))), "int16"
	default:
		b = append(b, 0xc2)
		return binary.LittleEndian.AppendUint32(b, uint32(int32(v))), "int32"
	}
}

// AppendRawString appends a string with canonical length and no special encoding.
func AppendRawString(b []byte, s []byte) []byte {
	b = AppendLen(b, uint64(len(s)), 0)
	return append(b, s...)
}

// ---- scores ----------------------------------------------------------------------------

func Score() *rapid.Generator[float64] {
	return rapid.Custom(func(t *rapid.T) float64 {
		switch rapid.IntRange(0, 6).Draw(t, "sk") {
		case 0:
			return float64(rapid.IntRange(-1000, 1000).Draw(t, "si"))
		case 1:
			return rapid.SampledFrom([]float64{0, math.Copysign(0, -1), 1.5, -2.25, 1e100, -1e-100, 3.141592653589793, 0.1, 1e17, 123456789012345678, 5e-324, math.MaxFloat64, -math.MaxFloat64}).Draw(t, "sv")
		case 2:
			return rapid.SampledFrom([]float64{math.Inf(1), math.Inf(-1)}).Draw(t, "sinf")
		default:
			f := math.Float64frombits(rapid.Uint64().Draw(t, "bits"))
			if math.IsNaN(f) {
				return 0.5
			}
			return f
		}
	})
}

// scoreText renders a score as Redis does for text-score encodings (%.17g).
func scoreText(f float64) string {
	switch {
	case math.IsInf(f, 1):
		return "inf"
	case math.IsInf(f, -1):
		return "-inf"
	case math.IsNaN(f):
		return "nan"
	}
	if f == math.Trunc(f) && math.Abs(f) < 1e17 && !(f == 0 && math.Signbit(f)) {
		return strconv.FormatInt(int64(f), 10)
	}
	return strconv.FormatFloat(f, 'g', 17, 64)
}

// ---- ziplist ------------------------------------------------------------------------------

func zlEntry(t *rapid.T, prevLen int, s []byte, forceStr bool) ([]byte, string) {
	var e []byte
	// prevlen
	if prevLen < 254 && rapid.IntRange(0, 7).Draw(t, "pl5") != 0 {
		e = append(e, byte(prevLen))
	} else {
		e = append(e, 0xfe)
		e = binary.LittleEndian.AppendUint32(e, uint32(prevLen))
	}
	if v, ok := canonInt(s); ok && !forceStr && rapid.IntRange(0, 5).Draw(t, "zint") != 0 {
		// encodings that fit v, narrowest first; pick narrowest mostly
		type ie struct {
			name string
			fits bool
		}
		cands := []ie{
			{"imm", v >= 0 && v <= 12},
			{"int8", v >= math.MinInt8 && v <= math.MaxInt8},
			{"int16", v >= math.MinInt16 && v <= math.MaxInt16},
			{"int24", v >= -(1<<23) && v < (1<<23)},
			{"int32", v >= math.MinInt32 && v <= math.MaxInt32},
			{"int64", true},
		}
		var ok []string
		for _, c := range cands {
			if c.fits {
				ok = append(ok, c.name)
			}
		}
		pick := ok[0]
		if rapid.IntRange(0, 3).Draw(t, "zwide") == 0 {
			pick = rapid.SampledFrom(ok).Draw(t, "zenc")
		}
		switch pick {
		case "imm":
			e = append(e, 0xf1+byte(v))
		case "int8":
			e = append(e, 0xfe, byte(int8(v)))
		case "int16":
			e = append(e, 0xc0)
			e = binary.LittleEndian.AppendUint16(e, uint16(int16(v)))
		case "int24":
			u := uint32(int32(v))
			e = append(e, 0xf0, byte(u), byte(u>>8), byte(u>>16))
		case "int32":
			e = append(e, 0xd0)
			e = binary.LittleEndian.AppendUint32(e, uint32(int32(v)))
		default:
			e = append(e, 0xe0)
			e = binary.LittleEndian.AppendUint64(e, uint64(v))
		}
		return e, "zl-" + pick
	}
	n := len(s)
	form := rapid.SampledFrom([]int{0, 0, 0, 1, 2}).Draw(t, "zlen")
	switch {
	case n < 64 && form == 0:
		e = append(e, byte(n))
		e = append(e, s...)
		return e, "zl-str6"
	case n < 16384 && form <= 1:
		e = append(e, 0x40|byte(n>>8), byte(n))
		e = append(e, s...)
		return e, "zl-str14"
	default:
		e = append(e, 0x80)
		e = binary.BigEndian.AppendUint32(e, uint32(n))
		e = append(e, s...)
		return e, "zl-str32"
	}
}

// Ziplist builds a ziplist blob of the given elements; labels collects entry encodings used.
func Ziplist(t *rapid.T, elems [][]byte, labels map[string]bool) []byte {
	var body []byte
	prev := 0
	tail := 10
	for i, s := range elems {
		e, l := zlEntry(t, prev, s, false)
		if labels != nil {
			labels[l] = true
			if e[0] == 0xfe {
				labels["zl-prevlen5"] = true
			}
		}
		if i == len(elems)-1 {
			tail = 10 + len(body)
		}
		body = append(body, e...)
		prev = len(e)
	}
	total := 10 + len(body) + 1
	b := make([]byte, 0, total)
	b = binary.LittleEndian.AppendUint32(b, uint32(total))
	b = binary.LittleEndian.AppendUint32(b, uint32(tail))
	n := len(elems)
	if n > 65535 {
		n = 65535 // ZIPLIST_LENGTH saturates: UINT16_MAX means "walk the entries to count them"
	}
	b = binary.LittleEndian.AppendUint16(b, uint16(n))
	b = append(b, body...)
	return append(b, 0xff)
}

// ---- zipmap -------------------------------------------------------------------------------------

// zmLen: zipmap item length as zipmap.c writes it: one byte for 0..253, else the marker 254
// (ZIPMAP_BIGLEN) followed by a 4-byte length in host (little-endian) order.
func zmLen(b []byte, n int) []byte {
	if n < 254 {
		return append(b, byte(n))
	}
	b = append(b, 254)
	return binary.LittleEndian.AppendUint32(b, uint32(n))
}

func Zipmap(t *rapid.T, pairs []HE, labels map[string]bool) []byte {
	var b []byte
	zmlen := len(pairs)
	if zmlen >= 254 || rapid.IntRange(0, 9).Draw(t, "zm254") == 0 {
		zmlen = 254 // "length unknown, count manually"
		if labels != nil {
			labels["zipmap-len254"] = true
		}
	}
	b = append(b, byte(zmlen))
	for _, p := range pairs {
		b = zmLen(b, len(p.Field))
		b = append(b, p.Field...)
		b = zmLen(b, len(p.Value))
		free := rapid.SampledFrom([]int{0, 0, 0, 1, 3}).Draw(t, "free")
		b = append(b, byte(free))
		b = append(b, p.Value...)
		b = append(b, bytes.Repeat([]byte{0xAA}, free)...)
		if labels != nil {
			if free > 0 {
				labels["zipmap-free"] = true
			}
			if len(p.Field) == 253 || len(p.Value) == 253 {
				labels["zipmap-item253"] = true
			}
			if len(p.Field) >= 254 || len(p.Value) >= 254 {
				labels["zipmap-biglen"] = true
			}
		}
	}
	return append(b, 0xff)
}

// ---- intset ----------------------------------------------------------------------------------------

func Intset(t *rapid.T, vals []int64, labels map[string]bool) []byte {
	w := 2
	for _, v := range vals {
		if v < math.MinInt32 || v > math.MaxInt32 {
			w = 8
		} else if (v < math.MinInt16 || v > math.MaxInt16) && w < 4 {
			w = 4
		}
	}
	// an intset never narrows after removals: wider than needed is realistic
	if w < 8 && rapid.IntRange(0, 4).Draw(t, "iswide") == 0 {
		w = rapid.SampledFrom([]int{4, 8}).Draw(t, "isw")
		if w < 4 {
			w = 4
		}
	}
	if w == 4 {
		for _, v := range vals {
			if v < math.MinInt32 || v > math.MaxInt32 {
				w = 8
			}
		}
	}
	sorted := append([]int64(nil), vals...)
	sort.Slice(sorted, func(i, j int) bool { return sorted[i] < sorted[j] })
	b := binary.LittleEndian.AppendUint32(nil, uint32(w))
	b = binary.LittleEndian.AppendUint32(b, uint32(len(sorted)))
	for _, v := range sorted {
		switch w {
		case 2:
			b = binary.LittleEndian.AppendUint16(b, uint16(int16(v)))
		case 4:
			b = binary.LittleEndian.AppendUint32(b, uint32(int32(v)))
		default:
			b = binary.LittleEndian.AppendUint64(b, uint64(v))
		}
	}
	if labels != nil {
		labels[fmt.Sprintf("intset%d", w*8)] = true
	}
	return b
}

// ---- logical values ---------------------------------------------------------------------------------------

func uniq(in [][]byte) [][]byte {
	seen := map[string]bool{}
	var out [][]byte
	for _, e := range in {
		if !seen[string(e)] {
			seen[string(e)] = true
			out = append(out, e)
		}
	}
	return out
}

// SizeGen draws collection sizes, biased to the boundaries the code cares about.
func SizeGen(max int) *rapid.Generator[int] {
	b := []int{0, 1, 2, 3}
	for _, v := range []int{63, 64, 65, 99, 100, 101, 199, 200, 201, 300} {
		if v <= max {
			b = append(b, v)
		}
	}
	return rapid.OneOf(rapid.IntRange(0, min(max, 12)), rapid.IntRange(0, min(max, 12)), rapid.SampledFrom(b))
}

func min(a, b int) int {
	if a < b {
		return a
	}
	return b
}

func elems(t *rapid.T, n int, unique bool) [][]byte {
	out := make([][]byte, 0, n)
	if n > 20 {
		// large collections: cheap distinct elements around a drawn base
		base := rapid.IntRange(-200, 70000).Draw(t, "base")
		asInt := rapid.Bool().Draw(t, "asint")
		for i := 0; i < n; i++ {
			if asInt {
				out = append(out, []byte(strconv.Itoa(base+i)))
			} else {
				out = append(out, []byte(fmt.Sprintf("m%d:%d", base, i)))
			}
		}
		return out
	}
	for i := 0; i < n; i++ {
		out = append(out, Elem().Draw(t, "elem"))
	}
	if unique {
		out = uniq(out)
	}
	return out
}

// DrawValue draws a logical value of the given kind ("" = any classic kind).
func DrawValue(t *rapid.T, kind string, maxElems int) Value {
	if kind == "" {
		kind = rapid.SampledFrom([]string{"string", "string", "list", "set", "zset", "hash"}).Draw(t, "kind")
	}
	v := Value{Kind: kind}
	switch kind {
	case "string":
		v.Str = Elem().Draw(t, "str")
	case "list":
		v.List = elems(t, SizeGen(maxElems).Draw(t, "n"), false)
	case "set":
		v.Set = elems(t, SizeGen(maxElems).Draw(t, "n"), true)
	case "zset":
		ms := elems(t, SizeGen(maxElems).Draw(t, "n"), true)
		for _, m := range ms {
			v.ZSet = append(v.ZSet, ZE{m, Score().Draw(t, "score")})
		}
	case "hash":
		fs := elems(t, SizeGen(maxElems).Draw(t, "n"), true)
		for i, f := range fs {
			var val []byte
			if len(fs) > 20 {
				val = []byte(strconv.Itoa(i * 7))
			} else {
				val = Elem().Draw(t, "hval")
			}
			v.Hash = append(v.Hash, HE{f, val})
		}
	}
	return v
}

// ---- encoding a value ------------------------------------------------------------------------------------------------

// EncodeValue draws one physical encoding for v. labels (optional) collects sub-encoding labels.
// compact=false restricts to the plain encodings (types 0-5).
func EncodeValue(t *rapid.T, v Value, labels map[string]bool) Enc {
	lab := func(s string) {
		if labels != nil {
			labels[s] = true
		}
	}
	str := func(b []byte, s []byte) []byte {
		b, l := AppendString(t, b, s)
		lab("str-" + l)
		return b
	}
	switch v.Kind {
	case "string":
		b := str(nil, v.Str)
		return Enc{TString, b, "string", 1}
	case "list":
		switch c := rapid.IntRange(0, 2).Draw(t, "lenc"); {
		case c == 1 && len(v.List) < 65535:
			zl := Ziplist(t, v.List, labels)
			return Enc{TListZiplist, str2(t, zl, lab), "list/ziplist", 2}
		case c == 2:
			// quicklist: split into 1..4 ziplists (empty lists get one empty node only if non-empty list)
			parts := splitList(t, v.List)
			b := AppendLen(nil, uint64(len(parts)), lenForm(t))
			for _, p := range parts {
				b = append(b, str2(t, Ziplist(t, p, labels), lab)...)
			}
			return Enc{TQuicklist, b, "list/quicklist", 7}
		}
		b := AppendLen(nil, uint64(len(v.List)), lenForm(t))
		for _, e := range v.List {
			b = str(b, e)
		}
		return Enc{TList, b, "list/linked", 1}
	case "set":
		allInt := len(v.Set) > 0
		var ints []int64
		for _, m := range v.Set {
			if x, ok := canonInt(m); ok {
				ints = append(ints, x)
			} else {
				allInt = false
			}
		}
		if allInt && rapid.IntRange(0, 2).Draw(t, "senc2") != 0 {
			return Enc{TSetIntset, str2(t, Intset(t, ints, labels), lab), "set/intset", 2}
		}
		b := AppendLen(nil, uint64(len(v.Set)), lenForm(t))
		for _, e := range v.Set {
			b = str(b, e)
		}
		return Enc{TSet, b, "set/hashtable", 1}
	case "zset":
		switch rapid.IntRange(0, 2).Draw(t, "zenc") {
		case 1:
			var flat [][]byte
			for _, e := range v.ZSet {
				flat = append(flat, e.Member, []byte(scoreText(e.Score)))
			}
			return Enc{TZSetZiplist, str2(t, Ziplist(t, flat, labels), lab), "zset/ziplist", 2}
		case 2:
			b := AppendLen(nil, uint64(len(v.ZSet)), lenForm(t))
			for _, e := range v.ZSet {
				b = str(b, e.Member)
				b = binary.LittleEndian.AppendUint64(b, math.Float64bits(e.Score))
			}
			return Enc{TZSet2, b, "zset/zset2", 8}
		}
		b := AppendLen(nil, uint64(len(v.ZSet)), lenForm(t))
		for _, e := range v.ZSet {
			b = str(b, e.Member)
			switch {
			case math.IsInf(e.Score, 1):
				b = append(b, 254)
				lab("score-254")
			case math.IsInf(e.Score, -1):
				b = append(b, 255)
				lab("score-255")
			default:
				s := strconv.FormatFloat(e.Score, 'g', 17, 64)
				b = append(b, byte(len(s)))
				b = append(b, s...)
			}
		}
		return Enc{TZSet, b, "zset/skiplist-text", 1}
	case "hash":
		switch c := rapid.IntRange(0, 3).Draw(t, "henc"); {
		case c == 1:
			var flat [][]byte
			for _, e := range v.Hash {
				flat = append(flat, e.Field, e.Value)
			}
			return Enc{THashZiplist, str2(t, Ziplist(t, flat, labels), lab), "hash/ziplist", 4}
		case c == 2 && len(v.Hash) < 254:
			return Enc{THashZipmap, str2(t, Zipmap(t, v.Hash, labels), lab), "hash/zipmap", 2}
		}
		b := AppendLen(nil, uint64(len(v.Hash)), lenForm(t))
		for _, e := range v.Hash {
			b = str(b, e.Field)
			b = str(b, e.Value)
		}
		return Enc{THash, b, "hash/hashtable", 1}
	}
	panic("EncodeValue: kind " + v.Kind)
}

// str2 wraps a blob (ziplist/intset/zipmap) as an RDB string: raw or LZF, never int-encoded.
func str2(t *rapid.T, blob []byte, lab func(string)) []byte {
	if rapid.IntRange(0, 3).Draw(t, "blobenc") == 0 && len(blob) > 4 {
		c := ref.LZFCompress(blob)
		if c == nil || len(c) >= len(blob) {
			c = ref.LZFLiteral(blob)
		}
		b := []byte{0xc3}
		b = AppendLen(b, uint64(len(c)), lenForm(t))
		b = AppendLen(b, uint64(len(blob)), lenForm(t))
		lab("blob-lzf")
		return append(b, c...)
	}
	b := AppendLen(nil, uint64(len(blob)), lenForm(t))
	return append(b, blob...)
}

func splitList(t *rapid.T, l [][]byte) [][][]byte {
	if len(l) == 0 {
		return nil
	}
	n := rapid.IntRange(1, min(4, len(l))).Draw(t, "qlnodes")
	var parts [][][]byte
	per := (len(l) + n - 1) / n
	for i := 0; i < len(l); i += per {
		j := i + per
		if j > len(l) {
			j = len(l)
		}
		parts = append(parts, l[i:j])
	}
	return parts
}

// ---- streams (opaque) -----------------------------------------------------------------------------------------------------------------

func big64(t *rapid.T, label string) uint64 {
	if rapid.Bool().Draw(t, label+"big") {
		return rapid.Uint64Range(1<<32, 1<<62).Draw(t, label)
	}
	return uint64(rapid.IntRange(0, 100000).Draw(t, label))
}

func appendLen64(t *rapid.T, b []byte, n uint64) []byte {
	return AppendLen(b, n, lenForm(t))
}

// StreamEnc builds a serialized stream value (type 15) with consumer groups and pending
// entries. The listpacks are opaque blobs: no consumer of the generator looks inside.
func StreamEnc(t *rapid.T, labels map[string]bool) Enc {
	lab := func(s string) {
		if labels != nil {
			labels[s] = true
		}
	}
	raw := func(b []byte, n int, l string) []byte {
		return append(b, rapid.SliceOfN(rapid.Byte(), n, n).Draw(t, l)...)
	}
	nlp := rapid.IntRange(0, 3).Draw(t, "nlp")
	b := AppendLen(nil, uint64(nlp), lenForm(t))
	for i := 0; i < nlp; i++ {
		b = AppendRawString(b, rapid.SliceOfN(rapid.Byte(), 16, 16).Draw(t, "lpid"))
		b = append(b, str2(t, rapid.SliceOfN(rapid.Byte(), 7, 60).Draw(t, "lp"), lab)...)
	}
	b = appendLen64(t, b, big64(t, "items"))
	b = appendLen64(t, b, big64(t, "lastms"))
	b = appendLen64(t, b, big64(t, "lastseq"))
	ncg := rapid.IntRange(0, 2).Draw(t, "ncg")
	b = AppendLen(b, uint64(ncg), lenForm(t))
	for g := 0; g < ncg; g++ {
		lab("stream-cgroup")
		var l string
		b, l = AppendString(t, b, Elem().Draw(t, "cgname"))
		lab("str-" + l)
		b = appendLen64(t, b, big64(t, "cgms"))
		b = appendLen64(t, b, big64(t, "cgseq"))
		npel := rapid.IntRange(0, 3).Draw(t, "npel")
		b = AppendLen(b, uint64(npel), lenForm(t))
		for p := 0; p < npel; p++ {
			lab("stream-pel")
			b = raw(b, 16, "pelid")
			b = raw(b, 8, "peltime")
			b = appendLen64(t, b, uint64(rapid.IntRange(0, 70000).Draw(t, "delivery")))
		}
		ncons := rapid.IntRange(0, 2).Draw(t, "ncons")
		b = AppendLen(b, uint64(ncons), lenForm(t))
		for c := 0; c < ncons; c++ {
			lab("stream-consumer")
			b, l = AppendString(t, b, Elem().Draw(t, "consname"))
			lab("str-" + l)
			b = raw(b, 8, "seen")
			np2 := rapid.IntRange(0, 2).Draw(t, "cpel")
			b = AppendLen(b, uint64(np2), lenForm(t))
			for p := 0; p < np2; p++ {
				b = raw(b, 16, "cpelid")
			}
		}
	}
	return Enc{TStream, b, "stream", 9}
}

// patBytes returns n deterministic pseudo-random bytes derived from seed.
func patBytes(seed uint32, n int) []byte {
	b := make([]byte, n)
	x := seed*2654435761 + 12345
	for i := range b {
		x = x*1664525 + 1013904223
		b[i] = byte(x >> 24)
	}
	return b
}
