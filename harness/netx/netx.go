// Package netx hands out loopback listeners on ports below the kernel's ephemeral range.
//
// Every generated case opens at least one listener and the tool under test closes its
// connections first, so each case leaves client-side sockets in TIME_WAIT inside the ephemeral
// range (32768-60999 here) for 60 s. At a few thousand cases per second the range fills up and
// net.Listen("tcp", "127.0.0.1:0") fails with EADDRINUSE although nothing is wrong with the code
// under test. Ports below the range are never used by connect(), so a listener bound there
// cannot collide with such leftovers.
package netx

import (
	"fmt"
	"net"
	"os"
	"sync"
)

const (
	lo = 2048
	hi = 32000
)

var (
	mu   sync.Mutex
	next = -1
)

// Listen returns a listener on 127.0.0.1 at the next free port of this process's sequence
// (sequential so that a port is not handed out again while leftovers of an earlier case may
// still try to reconnect to it).
func Listen() (net.Listener, error) {
	mu.Lock()
	defer mu.Unlock()
	if next < 0 {
		var shard, n int
		fmt.Sscanf(os.Getenv("VERIF_SHARD"), "%d/%d", &shard, &n)
		next = lo + (os.Getpid()*2621+shard*1877)%(hi-lo)
	}
	var last error
	for tries := 0; tries < hi-lo; tries++ {
		p := next
		next++
		if next >= hi {
			next = lo
		}
		ln, err := net.Listen("tcp", fmt.Sprintf("127.0.0.1:%d", p))
		if err == nil {
			return ln, nil
		}
		last = err
	}
	return nil, last
}
