#!/bin/bash
# usage: eval_seeds.sh <dir with m1 m2 m3> <property> [tier]
d="$1"; p="$2"; tier="${3:-quick}"
for i in 1 2 3; do m=$d/m$i; [ -d $m ] || continue
  c=$(/verif/tools/confirm_seed.sh $m | tail -1)
  r=$(TAIL=120 /verif/tools/try_patch.sh $m/patch.diff $p $tier 2>&1 | grep -E "^VIOLATION|^rc=|APPLY|inconclusive|violated" | cut -c1-220 | head -2 | tr '\n' ' ')
  echo "== $p m$i: $c | $r"
done
