#!/bin/bash
# usage: try_patch.sh <patch.diff> <property> [tier]
# Applies the patch to a scratch worktree of /repo's HEAD (never to /repo itself), runs the check against
# that tree (VERIF_REPO), removes the worktree. Evidence and replays of the unchanged tree are not touched.
set -u
patch="$(realpath "$1")"; prop="$2"; tier="${3:-quick}"
wt=$(mktemp -d /tmp/wt-try-XXXX)
git -C /repo worktree add -q --detach "$wt" HEAD || exit 3
trap 'git -C /repo worktree remove --force "$wt" 2>/dev/null; rm -rf "$wt"' EXIT
git -C "$wt" apply "$patch" 2>/dev/null || git -C "$wt" apply --3way "$patch" || { echo "APPLY FAILED"; exit 3; }
cd /verif && VERIF_REPO="$wt" VERIF_NOEVIDENCE=1 VERIF_REPLAY_DIR=/tmp/verif-mutant-replays ./check "$prop" --tier "$tier" 2>&1 | tail -${TAIL:-6}
echo "rc=${PIPESTATUS[0]}"
