# Per-property run configuration of the driver (./check). One entry per claimed property.
# quick/thorough: list of test-process runs: re = -test.run regexp, checks = rapid case
# count (split over shards), shards = parallel processes with different PRNG values.

PROPS = {}
HOOK_COMMITS = []
NOT_CLAIMED = {}


def prop(pid, **kw):
    kw.setdefault("regress_re", "^Test%sRegress$" % pid)
    kw.setdefault("replay_re", "^Test%s$" % pid)
    PROPS[pid] = kw


prop("C10",
     title="RESP codec round-trips, rejects malformed input and counts bytes exactly",
     quick=[{"re": "^TestC10$", "checks": 3000}],
     thorough=[{"re": "^TestC10$", "checks": 400000, "shards": 8, "timeout": 1500},
               {"re": "^$", "fuzz": "^FuzzC10$", "fuzztime": "90s", "checks": 1, "exclusive": True, "timeout": 400}],
     rule="rapid-generated RESP trees (depth<=4, all int64 incl. table boundaries, nil/empty/binary bulk, nil/empty arrays), "
          "streams of values + inline commands + keep-alive newlines read through bufio of generated size over a reader "
          "returning generated chunk sizes; constructed malformations (every proper prefix, CR/LF substitutions at structural "
          "positions, lengths < -1, non-numeric lengths, unknown type byte in array). Oracles: reference encoder "
          "(byte-exact), structural equality with nil/empty kept, decoder position == bytes consumed == reference end "
          "offset of each value, rest of stream untouched, every malformation returns an error. Non-trivial: round-trip of a "
          "nested array > 8 bytes; stream with >=3 items, >=1 keep-alive and >=1 nested array; malformed artefact >= 6 "
          "bytes; command with >= 2 args. Distinct = hash of the encoded bytes.",
     technique="property-based testing (rapid): round-trip + reference encoder differential + position/consumption invariant + constructed-malformation rejection; native go fuzzing of the decoder fixpoint in the thorough tier",
     level_text="Generated-input search with explicit oracles; thousands (quick) to hundreds of thousands (thorough) of cases plus a coverage-guided fuzz campaign. Right level: the codec is a pure function of bytes, so generated inputs with a byte-exact reference reach every branch cheaply; no absence claim.",
     level_note="Trusted: the harness' own 40-line reference RESP encoder and tree comparison; rapid's generators/shrinker. Bounds: depth<=4, arrays<=4 wide, bulk<=40 bytes, streams<=8 items.",
     assumptions=["simple strings/errors contain no CR or LF (RESP specification)",
                  "a replaced LF in the middle of an artefact is not 'malformed' (it joins two lines into another well-formed stream); only positionally checked LFs and the final LF are corrupted",
                  "lengths with a leading '+' (accepted by strconv) are not generated as malformations"])
