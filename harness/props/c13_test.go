//go:build verif

package props

import (
	"bytes"
	"fmt"
	"sort"
	"strings"
	"testing"

	conf "github.com/alibaba/RedisShake/redis-shake/configure"
	"github.com/alibaba/RedisShake/redis-shake/filter"
	"pgregory.net/rapid"

	"verif/harness/ref"
	"verif/harness/stats"
)

// buildArgs builds a valid argument list for cmd with nk keys; keys[i] are the key names.
func buildArgs(cmd string, spec ref.KeySpec, keys [][]byte, extra [][]byte) [][]byte {
	var args [][]byte
	switch {
	case cmd == "bitop":
		args = append(args, []byte("AND"))
		args = append(args, keys...)
	case cmd == "brpop" || cmd == "blpop":
		args = append(args, keys...)
		args = append(args, []byte("0"))
	case spec.Step == 2:
		for i, k := range keys {
			args = append(args, k, []byte(fmt.Sprintf("val%d", i)))
		}
	case spec.Last < 0:
		args = append(args, keys...)
	case spec.Last == 2:
		args = append(args, keys[0], keys[1])
		args = append(args, extra...)
	default:
		args = append(args, keys[0])
		args = append(args, extra...)
	}
	return args
}

var minKeys = map[string]int{"bitop": 2, "sinterstore": 2, "sunionstore": 2, "sdiffstore": 2}

func keyCount(spec ref.KeySpec, want int) int {
	switch {
	case spec.Last < 0:
		return want
	case spec.Last == 2:
		return 2
	}
	return 1
}

func joinArgs(a [][]byte) string {
	s := make([]string, len(a))
	for i := range a {
		s[i] = string(a[i])
	}
	return strings.Join(s, " ")
}

func sameArgs(a, b [][]byte) bool {
	if len(a) != len(b) {
		return false
	}
	for i := range a {
		if !bytes.Equal(a[i], b[i]) {
			return false
		}
	}
	return true
}

func c13Sig(cmd string, spec ref.KeySpec, what string) string {
	switch {
	case cmd == "bitop":
		return what + ":bitop"
	case spec.Last < 0 && spec.Step == 1:
		return what + ":neg-lastkey-step1:" + cmd
	}
	return what + ":" + cmd
}

// c13One checks one (command, args, filter) instance against the reference rewrite.
func c13One(t fataler, cmd string, args [][]byte, white, black []string) bool {
	spec, known := ref.KeySpecs[cmd]
	conf.Options.FilterKeyWhitelist = white
	conf.Options.FilterKeyBlacklist = black
	defer func() { conf.Options.FilterKeyWhitelist, conf.Options.FilterKeyBlacklist = nil, nil }()
	in := make([][]byte, len(args))
	for i := range args {
		in[i] = append([]byte{}, args[i]...)
	}
	got, reject := filter.HandleFilterKeyWithCommand(cmd, in)
	if len(white) == 0 && len(black) == 0 || !known {
		if reject || !sameArgs(got, args) {
			return violation(t, "C13", c13Sig(cmd, spec, "unfiltered-changed"), "%s %s with no key filter / unknown command: reject=%v out=%q", cmd, joinArgs(args), reject, joinArgs(got))
		}
		return false
	}
	pass := func(k []byte) bool {
		if strings.HasPrefix(string(k), "redis-shake-checkpoint") {
			return false
		}
		if len(black) > 0 {
			for _, p := range black {
				if strings.HasPrefix(string(k), p) {
					return false
				}
			}
			return true
		}
		for _, p := range white {
			if strings.HasPrefix(string(k), p) {
				return true
			}
		}
		return false
	}
	want, ok := spec.Rewrite(args, pass)
	if reject != !ok {
		return violation(t, "C13", c13Sig(cmd, spec, "reject"), "%s %s (white %q black %q): dropped=%v, expected dropped=%v", cmd, joinArgs(args), white, black, reject, !ok)
	}
	if ok && !sameArgs(got, want) {
		return violation(t, "C13", c13Sig(cmd, spec, "rewrite"), "%s %s (white %q black %q) rewritten to %q, expected %q", cmd, joinArgs(args), white, black, joinArgs(got), joinArgs(want))
	}
	return false
}

func sortedCommands() []string {
	var cmds []string
	for c := range filter.RedisCommands {
		cmds = append(cmds, c)
	}
	sort.Strings(cmds)
	return cmds
}

// TestC13Enumerate: every command of the repository's table x key counts 1..5 x every pass pattern.
func TestC13Enumerate(t *testing.T) {
	n := 0
	for _, cmd := range sortedCommands() {
		spec, ok := ref.KeySpecs[cmd]
		if !ok {
			t.Fatalf("property C13 violated [sig=table:unknown-command:%s]: the tool's table lists %q which the Redis 5 key table (reference) does not know", cmd, cmd)
		}
		for want := 1; want <= 5; want++ {
			nk := keyCount(spec, want)
			if nk < minKeys[cmd] {
				continue
			}
			if nk != want && want > 2 {
				continue
			}
			if nk != want && want == 2 && spec.Last != 2 {
				continue
			}
			for pattern := 0; pattern < 1<<nk; pattern++ {
				for _, mode := range []string{"black", "white"} {
					keys := make([][]byte, nk)
					for i := range keys {
						if pattern>>i&1 == 1 {
							keys[i] = []byte(fmt.Sprintf("p:key%d", i)) // has the listed prefix
						} else {
							keys[i] = []byte(fmt.Sprintf("q:key%d", i))
						}
					}
					args := buildArgs(cmd, spec, keys, [][]byte{[]byte("x1"), []byte("EX"), []byte("10")})
					var white, black []string
					if mode == "black" {
						black = []string{"p:"}
					} else {
						white = []string{"p:"}
					}
					if c13One(t, cmd, args, white, black) {
						return
					}
					n++
					mixed := pattern != 0 && pattern != 1<<nk-1
					stats.C.Case(nk >= 2 && mixed, stats.HashS(fmt.Sprint(cmd, nk, pattern, mode)), "enumerated")
				}
			}
		}
	}
	stats.C.Count("enumerated_command_arity_pattern_cells", int64(n))
	stats.C.Sample(fmt.Sprintf("enumeration: %d (command, key count, pass pattern, list kind) cells over the %d commands of the tool's table, e.g. 'bitop AND q:key0 p:key1 q:key2' with blacklist [p:]", n, len(filter.RedisCommands)))
}

func c13Random(t *rapid.T) {
	cmds := sortedCommands()
	cmd := rapid.SampledFrom(cmds).Draw(t, "cmd")
	if rapid.IntRange(0, 19).Draw(t, "unknown") == 0 {
		cmd = rapid.SampledFrom([]string{"zunionstore", "eval", "sort", "flushall", "xadd", "publish"}).Draw(t, "ucmd")
	}
	spec := ref.KeySpecs[cmd]
	if _, ok := ref.KeySpecs[cmd]; !ok {
		spec = ref.KeySpec{First: 1, Last: 1, Step: 1}
	}
	long70 := strings.Repeat("L", 70) // prefixes and keys well beyond any short fixed-size window
	prefixes := rapid.SliceOfNDistinct(rapid.SampledFrom([]string{"a", "ab", "abc", "b", "{", "redis-shake", "k:", "", long70, long70[:65]}), 0, 3, func(s string) string { return s }).Draw(t, "prefixes")
	keyGen := rapid.OneOf(rapid.StringMatching(`(a|ab|abc|b|k:|c|\{)?[a-c]{0,3}`), rapid.SampledFrom([]string{"redis-shake-checkpoint", "redis-shake-checkpoint-abcd", "redis-shake", "", "a", "ab", long70 + "x", long70[:69], long70[:64] + "Z", long70[:64]}),
		rapid.Map(rapid.SliceOfN(rapid.Byte(), 0, 5), func(b []byte) string { return string(b) }))
	nk := keyCount(spec, rapid.IntRange(1, 5).Draw(t, "nk"))
	if nk < minKeys[cmd] {
		nk = minKeys[cmd]
	}
	keys := make([][]byte, nk)
	for i := range keys {
		keys[i] = []byte(keyGen.Draw(t, "key"))
	}
	var extra [][]byte
	for i := rapid.IntRange(0, 3).Draw(t, "nextra"); i > 0; i-- {
		extra = append(extra, []byte(keyGen.Draw(t, "extra"))) // option values that look like keys
	}
	args := buildArgs(cmd, spec, keys, extra)
	var white, black []string
	switch rapid.IntRange(0, 2).Draw(t, "listkind") {
	case 0:
		white = prefixes
	case 1:
		black = prefixes
	}
	if c13One(t, cmd, args, white, black) {
		return
	}
	// the rewritten argument list of one command is still what it was after the next command has been filtered (the
	// parser hands results on to a queue before it filters the next command)
	if len(white) > 0 || len(black) > 0 {
		conf.Options.FilterKeyWhitelist, conf.Options.FilterKeyBlacklist = white, black
		cp := func(a [][]byte) [][]byte {
			out := make([][]byte, len(a))
			for i := range a {
				out[i] = append([]byte{}, a[i]...)
			}
			return out
		}
		first, rej1 := filter.HandleFilterKeyWithCommand(cmd, cp(args))
		snapshot := cp(first)
		nextKeys := [][]byte{[]byte("del")}
		for i := rapid.IntRange(1, 6).Draw(t, "nextKeys"); i > 0; i-- {
			nextKeys = append(nextKeys, []byte(keyGen.Draw(t, "nextKey")))
		}
		filter.HandleFilterKeyWithCommand("del", nextKeys)
		conf.Options.FilterKeyWhitelist, conf.Options.FilterKeyBlacklist = nil, nil
		if !rej1 && !sameArgs(first, snapshot) {
			violation(t, "C13", "result-overwritten", "%s %s (white %q black %q) was rewritten to %q; after the next command (%s) had been filtered the same result reads %q", cmd, joinArgs(args), white, black, joinArgs(snapshot), joinArgs(nextKeys), joinArgs(first))
			return
		}
	}
	stats.C.Case(nk >= 2 && (len(white) > 0 || len(black) > 0), stats.HashS(fmt.Sprint(cmd, joinArgs(args), white, black)), "random")
	if nk >= 3 && len(black) > 0 {
		stats.C.Sample(fmt.Sprintf("%s %q blacklist %q", cmd, joinArgs(args), black))
	}
}

// c13Huge: multi-key commands far beyond 65536 arguments (a single MSET / DEL of a bulk loader), with passing and
// filtered keys on both sides of every power-of-two position.
func c13Huge(t fataler, cmd string, nkeys int, period int, white bool) bool {
	spec := ref.KeySpecs[cmd]
	keys := make([][]byte, nkeys)
	for i := range keys {
		p := "q:"
		if i%period == 0 || i >= nkeys-3 {
			p = "p:"
		}
		keys[i] = []byte(fmt.Sprintf("%sk%d", p, i))
	}
	args := buildArgs(cmd, spec, keys, nil)
	if white {
		return c13One(t, cmd, args, []string{"p:"}, nil)
	}
	return c13One(t, cmd, args, nil, []string{"q:"})
}

func c13HugeRandom(t *rapid.T) {
	cmd := rapid.SampledFrom([]string{"mset", "del", "msetnx", "unlink", "pfmerge"}).Draw(t, "cmd")
	n := rapid.SampledFrom([]int{32767, 32768, 32769, 40000, 65535, 65536, 65537, 70000}).Draw(t, "nkeys")
	period := rapid.SampledFrom([]int{2, 3, 7, 1000}).Draw(t, "period")
	white := rapid.Bool().Draw(t, "white")
	if c13Huge(t, cmd, n, period, white) {
		return
	}
	stats.C.Case(true, stats.HashS(fmt.Sprint(cmd, n, period, white)), "huge-command")
}

func TestC13(t *testing.T)     { rapid.Check(t, c13Random) }
func TestC13Huge(t *testing.T) { rapid.Check(t, c13HugeRandom) }

func TestC13Regress(t *testing.T) {
	b := func(s ...string) [][]byte {
		var o [][]byte
		for _, x := range s {
			o = append(o, []byte(x))
		}
		return o
	}
	// fixed: negative-lastkey/step-1 commands ignored their last key; BITOP lost its operation
	c13One(t, "unlink", b("q:a", "p:b"), nil, []string{"p:"})
	c13One(t, "unlink", b("p:a", "q:b"), nil, []string{"p:"})
	c13One(t, "sunionstore", b("q:dst", "q:a", "p:b"), nil, []string{"p:"})
	c13One(t, "pfmerge", b("p:dst", "p:a", "q:b"), nil, []string{"p:"})
	c13One(t, "brpop", b("q:a", "p:b", "0"), nil, []string{"p:"})
	c13One(t, "blpop", b("p:a", "q:b", "0"), []string{"p:"}, nil)
	c13One(t, "bitop", b("AND", "q:dst", "q:a", "p:b"), nil, []string{"p:"})
	c13One(t, "bitop", b("NOT", "q:dst", "q:a"), nil, []string{"p:"})
}
