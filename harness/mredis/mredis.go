// Package mredis is a model Redis for the harness: an in-process server speaking RESP
// over real sockets, with a keyspace of logical values, MULTI/EXEC, RESTORE with
// redis-5 ordering of checks, fault and schedule knobs, and a complete command log.
// It has its own RESP reader/writer (it does not use the repository's pkg/redis).
package mredis

import (
	"bufio"
	"crypto/sha1"
	"encoding/binary"
	"fmt"
	"io"
	"math"
	"net"
	"sort"
	"strconv"
	"strings"
	"sync"
	"time"
	"verif/harness/netx"

	"verif/harness/gen"
	"verif/harness/ref"
)

// ---- values ------------------------------------------------------------------------------

type Entry struct {
	Kind     string // string list set zset hash opaque
	Str      []byte
	List     [][]byte
	Set      map[string]struct{}
	ZSet     map[string]float64
	Hash     map[string]string
	Payload  []byte // DUMP payload when known (RESTOREd or preloaded)
	HasTTL   bool
	TTLGiven int64     // ms, as given by RESTORE ttl / PEXPIRE
	TTLAt    time.Time // when it was given
	Idle     int64
	Freq     int64
	Writes   int // number of write commands that touched this key
}

func FromValue(v gen.Value) *Entry {
	e := &Entry{Kind: v.Kind}
	switch v.Kind {
	case "string":
		e.Str = append([]byte{}, v.Str...)
	case "list":
		for _, x := range v.List {
			e.List = append(e.List, append([]byte{}, x...))
		}
	case "set":
		e.Set = map[string]struct{}{}
		for _, x := range v.Set {
			e.Set[string(x)] = struct{}{}
		}
	case "zset":
		e.ZSet = map[string]float64{}
		for _, x := range v.ZSet {
			e.ZSet[string(x.Member)] = x.Score
		}
	case "hash":
		e.Hash = map[string]string{}
		for _, x := range v.Hash {
			e.Hash[string(x.Field)] = string(x.Value)
		}
	}
	return e
}

// Same compares the logical value of two entries (lists ordered, others as sets/maps).
func (e *Entry) Same(o *Entry) string {
	if e.Kind != o.Kind {
		return fmt.Sprintf("kind %s vs %s", e.Kind, o.Kind)
	}
	switch e.Kind {
	case "string":
		if string(e.Str) != string(o.Str) {
			return fmt.Sprintf("string %q vs %q", e.Str, o.Str)
		}
	case "list":
		if len(e.List) != len(o.List) {
			return fmt.Sprintf("list length %d vs %d", len(e.List), len(o.List))
		}
		for i := range e.List {
			if string(e.List[i]) != string(o.List[i]) {
				return fmt.Sprintf("list[%d] %q vs %q", i, e.List[i], o.List[i])
			}
		}
	case "set":
		if len(e.Set) != len(o.Set) {
			return fmt.Sprintf("set size %d vs %d", len(e.Set), len(o.Set))
		}
		for k := range e.Set {
			if _, ok := o.Set[k]; !ok {
				return fmt.Sprintf("set member %q missing", k)
			}
		}
	case "zset":
		if len(e.ZSet) != len(o.ZSet) {
			return fmt.Sprintf("zset size %d vs %d", len(e.ZSet), len(o.ZSet))
		}
		for k, s := range e.ZSet {
			s2, ok := o.ZSet[k]
			if !ok || !(s == s2 || math.Float64bits(s) == math.Float64bits(s2)) {
				return fmt.Sprintf("zset member %q score %v vs %v (present %v)", k, s, s2, ok)
			}
		}
	case "hash":
		if len(e.Hash) != len(o.Hash) {
			return fmt.Sprintf("hash size %d vs %d", len(e.Hash), len(o.Hash))
		}
		for k, v := range e.Hash {
			if v2, ok := o.Hash[k]; !ok || v != v2 {
				return fmt.Sprintf("hash field %q = %q vs %q (present %v)", k, v, v2, ok)
			}
		}
	case "opaque":
		if string(e.Payload) != string(o.Payload) {
			return "opaque payload differs"
		}
	}
	return ""
}

func (e *Entry) Card() int {
	switch e.Kind {
	case "list":
		return len(e.List)
	case "set":
		return len(e.Set)
	case "zset":
		return len(e.ZSet)
	case "hash":
		return len(e.Hash)
	}
	return 1
}

// ---- replies ---------------------------------------------------------------------------------

type Reply struct {
	Kind  byte // '+', '-', ':', '$', '*', 'n' (nil bulk), 'N' (nil array)
	S     []byte
	I     int64
	Arr   []Reply
	Close bool // close the connection after (instead of) sending
}

func OK() Reply               { return Reply{Kind: '+', S: []byte("OK")} }
func Err(s string) Reply      { return Reply{Kind: '-', S: []byte(s)} }
func Int(i int64) Reply       { return Reply{Kind: ':', I: i} }
func Bulk(b []byte) Reply     { return Reply{Kind: '$', S: b} }
func Nil() Reply              { return Reply{Kind: 'n'} }
func Arr(a ...Reply) Reply    { return Reply{Kind: '*', Arr: a} }
func Status(s string) Reply   { return Reply{Kind: '+', S: []byte(s)} }
func (r Reply) IsError() bool { return r.Kind == '-' }

func (r Reply) encode(b []byte) []byte {
	switch r.Kind {
	case '+', '-':
		b = append(b, r.Kind)
		b = append(b, r.S...)
		return append(b, '\r', '\n')
	case ':':
		b = append(b, ':')
		b = strconv.AppendInt(b, r.I, 10)
		return append(b, '\r', '\n')
	case '$':
		b = append(b, '$')
		b = strconv.AppendInt(b, int64(len(r.S)), 10)
		b = append(b, '\r', '\n')
		b = append(b, r.S...)
		return append(b, '\r', '\n')
	case 'n':
		return append(b, "$-1\r\n"...)
	case 'N':
		return append(b, "*-1\r\n"...)
	case '*':
		b = append(b, '*')
		b = strconv.AppendInt(b, int64(len(r.Arr)), 10)
		b = append(b, '\r', '\n')
		for _, e := range r.Arr {
			b = e.encode(b)
		}
		return b
	}
	return b
}

// ---- server ------------------------------------------------------------------------------------

type Cmd struct {
	Seq   int
	Conn  int
	DB    int
	Argv  [][]byte
	Name  string // lower-cased
	Reply Reply
	InTx  bool // executed as part of EXEC
	At    time.Time
}

func (c Cmd) String() string {
	parts := make([]string, len(c.Argv))
	for i, a := range c.Argv {
		if len(a) > 40 {
			parts[i] = fmt.Sprintf("%q...(%d)", a[:40], len(a))
		} else {
			parts[i] = fmt.Sprintf("%q", a)
		}
	}
	return fmt.Sprintf("#%d conn%d db%d %s", c.Seq, c.Conn, c.DB, strings.Join(parts, " "))
}

type ConnState struct {
	ID     int
	DB     int
	Authed bool
	InTx   bool
	Queue  [][][]byte
	NCmds  int
	Raw    []byte // every byte received on this connection (when Server.KeepRaw)
}

type Server struct {
	mu sync.Mutex

	DBs      map[int]map[string]*Entry
	Scripts  map[string][]byte
	Log      []Cmd
	seq      int
	connSeq  int
	Password string
	Role     string // role reported by INFO replication ("master" default; "" = no role line)

	// capabilities
	Version     string // e.g. "5.0.7"
	RDBVersion  int    // highest payload version accepted by RESTORE
	BusyMsg28   bool   // 2.8 wording of the busy-key error
	RejectTypes map[byte]bool

	Registry        map[string]gen.Value // payload -> logical value
	UnknownPayloads []string             // classic-type payloads restored that the generator never made

	// knobs (called without the lock held unless stated)
	Gate    func(c *ConnState, argv [][]byte)        // called before execution, may block (schedule control)
	Hook    func(c *ConnState, argv [][]byte) *Reply // with lock held; non-nil reply replaces normal execution
	KeepRaw bool
	Conns   []*ConnState

	ln     net.Listener
	closed bool
	conns  map[net.Conn]struct{}
	Now    func() time.Time
}

func New() *Server {
	return &Server{DBs: map[int]map[string]*Entry{}, Scripts: map[string][]byte{}, Version: "5.0.7", RDBVersion: 9,
		RejectTypes: map[byte]bool{}, Registry: map[string]gen.Value{}, conns: map[net.Conn]struct{}{}, Now: time.Now}
}

// Listen starts serving on a loopback TCP port and returns the address.
func (s *Server) Listen() string {
	ln, err := netx.Listen()
	if err != nil {
		panic(err)
	}
	s.ln = ln
	go func() {
		for {
			c, err := ln.Accept()
			if err != nil {
				return
			}
			go s.Serve(c)
		}
	}()
	return ln.Addr().String()
}

func (s *Server) Addr() string { return s.ln.Addr().String() }

func (s *Server) Close() {
	s.mu.Lock()
	s.closed = true
	conns := s.conns
	s.conns = map[net.Conn]struct{}{}
	s.mu.Unlock()
	if s.ln != nil {
		s.ln.Close()
	}
	for c := range conns {
		c.Close()
	}
}

// CloseConns closes all current client connections but keeps listening.
func (s *Server) CloseConns() {
	s.mu.Lock()
	conns := s.conns
	s.conns = map[net.Conn]struct{}{}
	s.mu.Unlock()
	for c := range conns {
		c.Close()
	}
}

// NumConns is the number of client connections currently open.
func (s *Server) NumConns() int { s.mu.Lock(); defer s.mu.Unlock(); return len(s.conns) }

func (s *Server) Lock()   { s.mu.Lock() }
func (s *Server) Unlock() { s.mu.Unlock() }

func (s *Server) db(n int) map[string]*Entry {
	d, ok := s.DBs[n]
	if !ok {
		d = map[string]*Entry{}
		s.DBs[n] = d
	}
	return d
}

// Put preloads a key (no log entry).
func (s *Server) Put(db int, key string, e *Entry) {
	s.mu.Lock()
	defer s.mu.Unlock()
	s.db(db)[key] = e
}

func (s *Server) Get(db int, key string) *Entry {
	s.mu.Lock()
	defer s.mu.Unlock()
	return s.DBs[db][key]
}

func (s *Server) Keys(db int) []string {
	s.mu.Lock()
	defer s.mu.Unlock()
	var out []string
	for k := range s.DBs[db] {
		out = append(out, k)
	}
	sort.Strings(out)
	return out
}

func (s *Server) LogCopy() []Cmd {
	s.mu.Lock()
	defer s.mu.Unlock()
	return append([]Cmd(nil), s.Log...)
}

func (s *Server) Register(payload []byte, v gen.Value) {
	s.mu.Lock()
	defer s.mu.Unlock()
	s.Registry[string(payload)] = v
}

// readCommand reads one RESP array of bulk strings (or an inline command).
func readCommand(br *bufio.Reader, raw *[]byte) ([][]byte, error) {
	line, err := br.ReadBytes('\n')
	if raw != nil {
		*raw = append(*raw, line...)
	}
	if err != nil {
		return nil, err
	}
	if len(line) < 3 || line[len(line)-2] != '\r' {
		return nil, fmt.Errorf("mredis: bad line %q", line)
	}
	if line[0] != '*' {
		var out [][]byte
		for _, w := range strings.Fields(string(line[:len(line)-2])) {
			out = append(out, []byte(w))
		}
		return out, nil
	}
	n, err := strconv.Atoi(string(line[1 : len(line)-2]))
	if err != nil || n < 0 {
		return nil, fmt.Errorf("mredis: bad array header %q", line)
	}
	argv := make([][]byte, 0, n)
	for i := 0; i < n; i++ {
		h, err := br.ReadBytes('\n')
		if raw != nil {
			*raw = append(*raw, h...)
		}
		if err != nil {
			return nil, err
		}
		if len(h) < 4 || h[0] != '$' {
			return nil, fmt.Errorf("mredis: bad bulk header %q", h)
		}
		l, err := strconv.Atoi(string(h[1 : len(h)-2]))
		if err != nil || l < 0 {
			return nil, fmt.Errorf("mredis: bad bulk length %q", h)
		}
		b := make([]byte, l+2)
		if _, err := io.ReadFull(br, b); err != nil {
			if raw != nil {
				*raw = append(*raw, b...)
			}
			return nil, err
		}
		if raw != nil {
			*raw = append(*raw, b...)
		}
		argv = append(argv, b[:l])
	}
	return argv, nil
}

// Serve handles one client connection until it is closed.
func (s *Server) Serve(c net.Conn) {
	s.mu.Lock()
	if s.closed {
		s.mu.Unlock()
		c.Close()
		return
	}
	s.connSeq++
	cs := &ConnState{ID: s.connSeq, Authed: s.Password == ""}
	s.Conns = append(s.Conns, cs)
	s.conns[c] = struct{}{}
	s.mu.Unlock()
	// replies go through an unbounded queue so that a pipelining client can never deadlock against us
	var qmu sync.Mutex
	qcond := sync.NewCond(&qmu)
	var queue [][]byte
	done := false
	go func() {
		for {
			qmu.Lock()
			for len(queue) == 0 && !done {
				qcond.Wait()
			}
			if len(queue) == 0 && done {
				qmu.Unlock()
				return
			}
			b := queue[0]
			queue = queue[1:]
			qmu.Unlock()
			if b == nil {
				c.Close()
				return
			}
			if _, err := c.Write(b); err != nil {
				return
			}
		}
	}()
	push := func(b []byte) {
		qmu.Lock()
		queue = append(queue, b)
		qcond.Signal()
		qmu.Unlock()
	}
	defer func() {
		qmu.Lock()
		done = true
		qcond.Signal()
		qmu.Unlock()
		s.mu.Lock()
		delete(s.conns, c)
		s.mu.Unlock()
	}()
	br := bufio.NewReaderSize(c, 64*1024)
	for {
		var raw *[]byte
		if s.KeepRaw {
			raw = &cs.Raw
		}
		argv, err := readCommand(br, raw)
		if err != nil {
			c.Close()
			return
		}
		if len(argv) == 0 {
			continue
		}
		if g := s.Gate; g != nil {
			g(cs, argv)
		}
		s.mu.Lock()
		r := s.dispatch(cs, argv)
		s.mu.Unlock()
		if r.Close {
			push(nil)
			return
		}
		push(r.encode(nil))
	}
}

func (s *Server) record(cs *ConnState, argv [][]byte, r Reply, inTx bool) {
	s.seq++
	s.Log = append(s.Log, Cmd{Seq: s.seq, Conn: cs.ID, DB: cs.DB, Argv: argv, Name: strings.ToLower(string(argv[0])), Reply: r, InTx: inTx, At: s.Now()})
}

func (s *Server) dispatch(cs *ConnState, argv [][]byte) Reply {
	cs.NCmds++
	name := strings.ToLower(string(argv[0]))
	if h := s.Hook; h != nil {
		if r := h(cs, argv); r != nil {
			s.record(cs, argv, *r, false)
			return *r
		}
	}
	if !cs.Authed && name != "auth" {
		if _, known := ref.KeySpecs[name]; !known && !sessionCommands[name] && s.major() >= 5 {
			// as Redis >= 5 does: the command table is consulted before the authentication check, and the
			// error for an unknown command echoes its first arguments
			r := Err(UnknownCommandError(argv))
			s.record(cs, argv, r, false)
			return r
		}
		r := Err("NOAUTH Authentication required.")
		s.record(cs, argv, r, false)
		return r
	}
	if cs.InTx && name != "exec" && name != "discard" && name != "multi" {
		cs.Queue = append(cs.Queue, argv)
		r := Status("QUEUED")
		s.seq++
		return r
	}
	switch name {
	case "multi":
		if cs.InTx {
			return Err("ERR MULTI calls can not be nested")
		}
		cs.InTx = true
		cs.Queue = nil
		r := OK()
		s.record(cs, argv, r, false)
		return r
	case "discard":
		cs.InTx = false
		cs.Queue = nil
		return OK()
	case "exec":
		if !cs.InTx {
			return Err("ERR EXEC without MULTI")
		}
		cs.InTx = false
		out := make([]Reply, 0, len(cs.Queue))
		for _, q := range cs.Queue {
			dbBefore := cs.DB
			r := s.execute(cs, q)
			// record with the db the command ran in
			s.seq++
			s.Log = append(s.Log, Cmd{Seq: s.seq, Conn: cs.ID, DB: dbBefore, Argv: q, Name: strings.ToLower(string(q[0])), Reply: r, InTx: true, At: s.Now()})
			out = append(out, r)
		}
		cs.Queue = nil
		r := Arr(out...)
		s.record(cs, argv, r, false)
		return r
	}
	dbBefore := cs.DB
	r := s.execute(cs, argv)
	s.seq++
	s.Log = append(s.Log, Cmd{Seq: s.seq, Conn: cs.ID, DB: dbBefore, Argv: argv, Name: name, Reply: r, At: s.Now()})
	return r
}

var sessionCommands = map[string]bool{"auth": true, "ping": true, "select": true, "info": true, "multi": true, "exec": true, "discard": true,
	"script": true, "eval": true, "evalsha": true, "restore": true, "dump": true, "scan": true, "cluster": true, "config": true, "dbsize": true,
	"pttl": true, "ttl": true, "exists": true, "hgetall": true, "hdel": true, "keys": true, "flushall": true, "flushdb": true, "publish": true,
	"pexpire": true, "pexpireat": true, "expire": true, "expireat": true, "object": true, "type": true, "echo": true, "quit": true}

// UnknownCommandError renders Redis 5's reply to a command it does not know (without the leading '-').
func UnknownCommandError(argv [][]byte) string {
	var b strings.Builder
	fmt.Fprintf(&b, "ERR unknown command `%s`, with args beginning with: ", argv[0])
	for _, a := range argv[1:] {
		if b.Len() > 128+60 {
			break
		}
		fmt.Fprintf(&b, "`%.*s`, ", 128, a)
	}
	return b.String()
}

func (s *Server) major() int {
	m, _ := strconv.Atoi(strings.SplitN(s.Version, ".", 2)[0])
	return m
}

func parseFloat(b []byte) (float64, bool) {
	str := strings.ToLower(string(b))
	switch str {
	case "inf", "+inf", "infinity", "+infinity":
		return math.Inf(1), true
	case "-inf", "-infinity":
		return math.Inf(-1), true
	}
	f, err := strconv.ParseFloat(string(b), 64)
	if err != nil || math.IsNaN(f) {
		return 0, false
	}
	return f, true
}

const wrongType = "WRONGTYPE Operation against a key holding the wrong kind of value"

func (s *Server) execute(cs *ConnState, argv [][]byte) Reply {
	name := strings.ToLower(string(argv[0]))
	db := s.db(cs.DB)
	arity := func(min int) bool { return len(argv) >= min }
	switch name {
	case "auth":
		if s.Password == "" {
			return Err("ERR Client sent AUTH, but no password is set")
		}
		if len(argv) == 2 && string(argv[1]) == s.Password {
			cs.Authed = true
			return OK()
		}
		return Err("ERR invalid password")
	case "ping":
		return Status("PONG")
	case "echo":
		return Bulk(argv[1])
	case "select":
		n, err := strconv.Atoi(string(argv[1]))
		if err != nil || n < 0 {
			return Err("ERR invalid DB index")
		}
		cs.DB = n
		return OK()
	case "replconf", "flushall":
		return OK()
	case "exists":
		var n int64
		for _, k := range argv[1:] {
			if _, ok := db[string(k)]; ok {
				n++
			}
		}
		return Int(n)
	case "del", "unlink":
		var n int64
		for _, k := range argv[1:] {
			if _, ok := db[string(k)]; ok {
				delete(db, string(k))
				n++
			}
		}
		return Int(n)
	case "type":
		e := db[string(argv[1])]
		if e == nil {
			return Status("none")
		}
		return Status(e.Kind)
	case "get":
		e := db[string(argv[1])]
		if e == nil {
			return Nil()
		}
		if e.Kind != "string" {
			return Err(wrongType)
		}
		return Bulk(e.Str)
	case "set":
		if !arity(3) {
			return Err("ERR wrong number of arguments for 'set' command")
		}
		e := &Entry{Kind: "string", Str: append([]byte{}, argv[2]...)}
		if old := db[string(argv[1])]; old != nil {
			e.Writes = old.Writes
		}
		e.Writes++
		db[string(argv[1])] = e
		return OK()
	case "mset":
		if len(argv) < 3 || len(argv)%2 != 1 {
			return Err("ERR wrong number of arguments for 'mset' command")
		}
		for i := 1; i+1 < len(argv); i += 2 {
			db[string(argv[i])] = &Entry{Kind: "string", Str: append([]byte{}, argv[i+1]...), Writes: 1}
		}
		return OK()
	case "append":
		e := db[string(argv[1])]
		if e == nil {
			e = &Entry{Kind: "string"}
			db[string(argv[1])] = e
		}
		if e.Kind != "string" {
			return Err(wrongType)
		}
		e.Str = append(e.Str, argv[2]...)
		e.Writes++
		return Int(int64(len(e.Str)))
	case "incr":
		e := db[string(argv[1])]
		if e == nil {
			e = &Entry{Kind: "string", Str: []byte("0")}
			db[string(argv[1])] = e
		}
		if e.Kind != "string" {
			return Err(wrongType)
		}
		v, err := strconv.ParseInt(string(e.Str), 10, 64)
		if err != nil {
			return Err("ERR value is not an integer or out of range")
		}
		e.Str = []byte(strconv.FormatInt(v+1, 10))
		e.Writes++
		return Int(v + 1)
	case "rpush", "lpush":
		if !arity(3) {
			return Err("ERR wrong number of arguments")
		}
		e := db[string(argv[1])]
		if e == nil {
			e = &Entry{Kind: "list"}
			db[string(argv[1])] = e
		}
		if e.Kind != "list" {
			return Err(wrongType)
		}
		for _, v := range argv[2:] {
			if name == "rpush" {
				e.List = append(e.List, append([]byte{}, v...))
			} else {
				e.List = append([][]byte{append([]byte{}, v...)}, e.List...)
			}
		}
		e.Writes++
		return Int(int64(len(e.List)))
	case "hset", "hmset":
		if !arity(4) || len(argv)%2 != 0 {
			return Err("ERR wrong number of arguments for 'hset' command")
		}
		e := db[string(argv[1])]
		if e == nil {
			e = &Entry{Kind: "hash", Hash: map[string]string{}}
			db[string(argv[1])] = e
		}
		if e.Kind != "hash" {
			return Err(wrongType)
		}
		var added int64
		for i := 2; i+1 < len(argv); i += 2 {
			if _, ok := e.Hash[string(argv[i])]; !ok {
				added++
			}
			e.Hash[string(argv[i])] = string(argv[i+1])
		}
		e.Writes++
		if name == "hmset" {
			return OK()
		}
		return Int(added)
	case "hdel":
		e := db[string(argv[1])]
		if e == nil {
			return Int(0)
		}
		if e.Kind != "hash" {
			return Err(wrongType)
		}
		var n int64
		for _, f := range argv[2:] {
			if _, ok := e.Hash[string(f)]; ok {
				delete(e.Hash, string(f))
				n++
			}
		}
		if len(e.Hash) == 0 {
			delete(db, string(argv[1]))
		}
		return Int(n)
	case "hgetall":
		e := db[string(argv[1])]
		if e == nil {
			return Arr()
		}
		if e.Kind != "hash" {
			return Err(wrongType)
		}
		var fs []string
		for f := range e.Hash {
			fs = append(fs, f)
		}
		sort.Strings(fs)
		var out []Reply
		for _, f := range fs {
			out = append(out, Bulk([]byte(f)), Bulk([]byte(e.Hash[f])))
		}
		return Arr(out...)
	case "sadd":
		if !arity(3) {
			return Err("ERR wrong number of arguments")
		}
		e := db[string(argv[1])]
		if e == nil {
			e = &Entry{Kind: "set", Set: map[string]struct{}{}}
			db[string(argv[1])] = e
		}
		if e.Kind != "set" {
			return Err(wrongType)
		}
		var added int64
		for _, m := range argv[2:] {
			if _, ok := e.Set[string(m)]; !ok {
				added++
			}
			e.Set[string(m)] = struct{}{}
		}
		e.Writes++
		return Int(added)
	case "zadd":
		if !arity(4) || len(argv)%2 != 0 {
			return Err("ERR syntax error")
		}
		e := db[string(argv[1])]
		if e != nil && e.Kind != "zset" {
			return Err(wrongType)
		}
		for i := 2; i+1 < len(argv); i += 2 {
			if _, ok := parseFloat(argv[i]); !ok {
				return Err("ERR value is not a valid float")
			}
		}
		if e == nil {
			e = &Entry{Kind: "zset", ZSet: map[string]float64{}}
			db[string(argv[1])] = e
		}
		var added int64
		for i := 2; i+1 < len(argv); i += 2 {
			f, _ := parseFloat(argv[i])
			if _, ok := e.ZSet[string(argv[i+1])]; !ok {
				added++
			}
			e.ZSet[string(argv[i+1])] = f
		}
		e.Writes++
		return Int(added)
	case "pexpire", "expire":
		e := db[string(argv[1])]
		ms, err := strconv.ParseInt(string(argv[2]), 10, 64)
		if err != nil {
			return Err("ERR value is not an integer or out of range")
		}
		if name == "expire" {
			ms *= 1000
		}
		if e == nil {
			return Int(0)
		}
		e.HasTTL, e.TTLGiven, e.TTLAt = true, ms, s.Now()
		return Int(1)
	case "pttl":
		e := db[string(argv[1])]
		if e == nil {
			return Int(-2)
		}
		if !e.HasTTL {
			return Int(-1)
		}
		return Int(e.TTLGiven)
	case "script":
		if len(argv) >= 3 && strings.EqualFold(string(argv[1]), "load") {
			sum := fmt.Sprintf("%x", sha1.Sum(argv[2]))
			s.Scripts[sum] = append([]byte{}, argv[2]...)
			return Bulk([]byte(sum))
		}
		return OK()
	case "dump":
		e := db[string(argv[1])]
		if e == nil || e.Payload == nil {
			return Nil()
		}
		return Bulk(e.Payload)
	case "restore", "restore-asking":
		return s.restore(cs, db, argv)
	case "info":
		sec := ""
		if len(argv) > 1 {
			sec = strings.ToLower(string(argv[1]))
		}
		return Bulk([]byte(s.info(sec)))
	case "config":
		if len(argv) == 3 && strings.EqualFold(string(argv[1]), "get") {
			v := ""
			if strings.EqualFold(string(argv[2]), "rdbchecksum") {
				v = "yes"
			}
			return Arr(Bulk(argv[2]), Bulk([]byte(v)))
		}
		return OK()
	case "dbsize":
		return Int(int64(len(db)))
	case "cluster":
		return Err("ERR This instance has cluster support disabled") // the model is a standalone server
	}
	// any other command: accepted as an opaque write, visible in the log
	return OK()
}

func (s *Server) info(section string) string {
	switch section {
	case "keyspace":
		var dbs []int
		for n, d := range s.DBs {
			if len(d) > 0 {
				dbs = append(dbs, n)
			}
		}
		sort.Ints(dbs)
		out := "# Keyspace\r\n"
		for _, n := range dbs {
			out += fmt.Sprintf("db%d:keys=%d,expires=0,avg_ttl=0\r\n", n, len(s.DBs[n]))
		}
		return out
	case "replication":
		if s.Role == "none" {
			return "# Replication\r\nconnected_slaves:0\r\n"
		}
		role := s.Role
		if role == "" {
			role = "master"
		}
		return "# Replication\r\nrole:" + role + "\r\nconnected_slaves:0\r\nmaster_repl_offset:0\r\n"
	case "server":
		return "# Server\r\nredis_version:" + s.Version + "\r\nredis_mode:standalone\r\n"
	}
	return "# Server\r\nredis_version:" + s.Version + "\r\n# Replication\r\nrole:master\r\n# Keyspace\r\n"
}

func (s *Server) restore(cs *ConnState, db map[string]*Entry, argv [][]byte) Reply {
	if len(argv) < 4 {
		return Err("ERR wrong number of arguments for 'restore' command")
	}
	key, payload := string(argv[1]), argv[3]
	replace, absttl := false, false
	var idle, freq int64 = -1, -1
	for j := 4; j < len(argv); j++ {
		opt := strings.ToLower(string(argv[j]))
		more := len(argv) - j - 1
		switch {
		case opt == "replace" && s.major() >= 3:
			replace = true
		case opt == "absttl" && s.major() >= 5:
			absttl = true
		case opt == "idletime" && s.major() >= 5 && more >= 1 && freq == -1:
			v, err := strconv.ParseInt(string(argv[j+1]), 10, 64)
			if err != nil || v < 0 {
				return Err("ERR Invalid IDLETIME value, must be >= 0")
			}
			idle = v
			j++
		case opt == "freq" && s.major() >= 5 && more >= 1 && idle == -1:
			v, err := strconv.ParseInt(string(argv[j+1]), 10, 64)
			if err != nil || v < 0 || v > 255 {
				return Err("ERR Invalid FREQ value, must be >= 0 and <= 255")
			}
			freq = v
			j++
		default:
			return Err("ERR syntax error")
		}
	}
	if _, exists := db[key]; exists && !replace {
		if s.BusyMsg28 {
			return Err("ERR Target key name is busy.")
		}
		return Err("BUSYKEY Target key name already exists.")
	}
	ttl, err := strconv.ParseInt(string(argv[2]), 10, 64)
	if err != nil {
		return Err("ERR value is not an integer or out of range")
	}
	if ttl < 0 {
		return Err("ERR Invalid TTL value, must be >= 0")
	}
	n := len(payload)
	if n < 10 || int(binary.LittleEndian.Uint16(payload[n-10:])) > s.RDBVersion ||
		binary.LittleEndian.Uint64(payload[n-8:]) != ref.CRC64(0, payload[:n-8]) {
		return Err("ERR DUMP payload version or checksum are wrong")
	}
	typ := payload[0]
	if s.RejectTypes[typ] {
		return Err("ERR Bad data format")
	}
	var e *Entry
	if v, ok := s.Registry[string(payload)]; ok && v.Kind != "" {
		e = FromValue(v)
	} else {
		if !ok && typ != gen.TStream {
			if len(s.UnknownPayloads) < 20 {
				s.UnknownPayloads = append(s.UnknownPayloads, fmt.Sprintf("key %q type %d len %d", key, typ, n))
			}
		}
		e = &Entry{Kind: "opaque"}
	}
	e.Payload = append([]byte{}, payload...)
	if old := db[key]; old != nil {
		e.Writes = old.Writes
	}
	e.Writes++
	if ttl > 0 {
		e.HasTTL, e.TTLGiven, e.TTLAt = true, ttl, s.Now()
		if absttl {
			e.TTLGiven = ttl - s.Now().UnixNano()/1e6
		}
	}
	e.Idle, e.Freq = idle, freq
	db[key] = e
	return OK()
}

// NewConnState returns a connection state for direct execution through Exec.
func (s *Server) NewConnState() *ConnState {
	s.mu.Lock()
	defer s.mu.Unlock()
	s.connSeq++
	cs := &ConnState{ID: s.connSeq, Authed: true}
	s.Conns = append(s.Conns, cs)
	return cs
}

// Exec executes one command on a connection state without any socket (used to replay
// recorded command streams, e.g. every prefix of what a target received).
func (s *Server) Exec(cs *ConnState, argv [][]byte) Reply {
	s.mu.Lock()
	defer s.mu.Unlock()
	return s.dispatch(cs, argv)
}

// ParseCommands splits a raw byte stream as received from a client into commands; the
// second result is the number of bytes that belong to complete commands.
func ParseCommands(raw []byte) (cmds [][][]byte, ends []int) {
	br := bufio.NewReader(&sliceReader{b: raw})
	pos := 0
	for {
		var got []byte
		argv, err := readCommand(br, &got)
		if err != nil {
			return
		}
		pos += len(got)
		if len(argv) > 0 {
			cmds = append(cmds, argv)
			ends = append(ends, pos)
		}
	}
}

type sliceReader struct {
	b []byte
	i int
}

func (r *sliceReader) Read(p []byte) (int, error) {
	if r.i >= len(r.b) {
		return 0, io.EOF
	}
	n := copy(p, r.b[r.i:])
	r.i += n
	return n, nil
}
