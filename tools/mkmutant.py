#!/usr/bin/env python3
"""mkmutant.py <prop> <name> <file-relative-to-/repo> <old> <new>  -> /verif/mutants/<prop>/<name>.diff (hand-made sensitivity mutants)"""
import subprocess, sys, os
prop, name, f, old, new = sys.argv[1:6]
assert subprocess.run(["git", "-C", "/repo", "status", "--porcelain"], capture_output=True, text=True).stdout == "", "repo dirty"
p = os.path.join("/repo", f)
s = open(p).read()
assert s.count(old) == 1, "old text occurs %d times" % s.count(old)
open(p, "w").write(s.replace(old, new))
d = subprocess.run(["git", "-C", "/repo", "diff"], capture_output=True, text=True).stdout
subprocess.run(["git", "-C", "/repo", "checkout", "--", "."])
os.makedirs("/verif/mutants/" + prop, exist_ok=True)
open("/verif/mutants/%s/%s.diff" % (prop, name), "w").write(d)
print("wrote", "/verif/mutants/%s/%s.diff" % (prop, name))
