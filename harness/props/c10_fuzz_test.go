//go:build verif

package props

import (
	"bufio"
	"bytes"
	"testing"

	"github.com/alibaba/RedisShake/pkg/redis"
)

func hasLongDigitRun(b []byte, n int) bool {
	run := 0
	for _, c := range b {
		if c >= '0' && c <= '9' {
			run++
			if run >= n {
				return true
			}
		} else {
			run = 0
		}
	}
	return false
}

// FuzzC10: any byte string either fails to decode or decodes to a value whose
// re-encoding decodes to the same value (fixpoint), with position == bytes consumed.
func FuzzC10(f *testing.F) {
	for _, s := range []string{"+OK\r\n", "-ERR x\r\n", ":-1024\r\n", "$-1\r\n", "$0\r\n\r\n", "*-1\r\n", "*0\r\n",
		"*2\r\n$3\r\nset\r\n$1\r\na\r\n", "\n\n*1\r\n*1\r\n:524288\r\n", "set a  b\r\n", "$3\r\na\r\n\r\n", "*1\r\nX\r\n"} {
		f.Add([]byte(s))
	}
	f.Fuzz(func(t *testing.T, data []byte) {
		if hasLongDigitRun(data, 7) {
			t.Skip() // resource exhaustion through huge length fields is not part of the property
		}
		src := bytes.NewReader(data)
		br := bufio.NewReaderSize(src, 16)
		dec := redis.NewDecoder(br)
		// use the error-returning entry point with the same decoder state via MustDecodeOpt's sibling
		r, err := redis.Decode(bufio.NewReader(bytes.NewReader(data)))
		if err != nil {
			return
		}
		enc, err := redis.EncodeToBytes(r)
		if err != nil {
			t.Fatalf("property C10 violated [sig=fuzz-reencode]: decoded value of %q cannot be encoded: %v", data, err)
		}
		r2, err := redis.DecodeFromBytes(enc)
		if err != nil {
			t.Fatalf("property C10 violated [sig=fuzz-fixpoint]: %q -> %q does not decode: %v", data, enc, err)
		}
		enc2, _ := redis.EncodeToBytes(r2)
		if !bytes.Equal(enc, enc2) {
			t.Fatalf("property C10 violated [sig=fuzz-fixpoint]: %q: %q != %q", data, enc, enc2)
		}
		// position accounting on the same input (decode succeeded, so MustDecodeOpt cannot abort)
		_, off := redis.MustDecodeOpt(dec)
		consumed := int64(len(data)-src.Len()) - int64(br.Buffered())
		if off != consumed {
			t.Fatalf("property C10 violated [sig=fuzz-offset]: %q: position %d, consumed %d", data, off, consumed)
		}
	})
}
