//go:build verif

package props

// Shared machinery for the incremental-sync properties (C03, C04, C06, C08, C13 end-to-end):
// generated source command streams, the reference model of what must reach the target, and
// a runner that drives the real DbSyncer.syncCommand against a model target.

import (
	"bufio"
	"bytes"
	"fmt"
	"io"
	"strconv"
	"strings"
	"sync"
	"time"

	conf "github.com/alibaba/RedisShake/redis-shake/configure"
	"github.com/alibaba/RedisShake/redis-shake/dbSync"
	"pgregory.net/rapid"

	"verif/harness/logcap"
	"verif/harness/mredis"
	"verif/harness/ref"
)

const incrSource = "127.0.0.1:1" // the syncer's source address (nothing listens there)

type srcCmd struct {
	argv [][]byte
	pre  int   // keep-alive newlines in front
	end  int64 // stream position right after the command
	inTx bool  // between a source MULTI and EXEC
}

func (c srcCmd) name() string { return strings.ToLower(string(c.argv[0])) }

type incrStream struct {
	cmds  []srcCmd
	bytes []byte
}

func encodeCmd(b *bytes.Buffer, argv [][]byte) {
	fmt.Fprintf(b, "*%d\r\n", len(argv))
	for _, a := range argv {
		fmt.Fprintf(b, "$%d\r\n", len(a))
		b.Write(a)
		b.WriteString("\r\n")
	}
}

func bb(s ...string) [][]byte {
	out := make([][]byte, len(s))
	for i := range s {
		out[i] = []byte(s[i])
	}
	return out
}

type streamOpts struct {
	maxCmds     int
	startSelect bool // the stream starts with a SELECT (fresh stream after a full sync)
	dbs         []int
	noMulti     bool
	startInTx   bool // the stream starts inside a source transaction (resume offset fell into a MULTI block)
	selectInTx  bool // SELECT may occur inside a source MULTI block
	minCmds     int
	noSelect    bool // no SELECT after the first command
	noCkKeys    bool // no user keys carrying the tool's checkpoint prefix (they would collide with the tool's own key)
}

func drawStream(t *rapid.T, o streamOpts) *incrStream {
	st := &incrStream{}
	var buf bytes.Buffer
	inTx := o.startInTx
	add := func(argv [][]byte) {
		pre := rapid.SampledFrom([]int{0, 0, 0, 0, 1, 2}).Draw(t, "ka")
		buf.Write(bytes.Repeat([]byte("\n"), pre))
		// command names arrive in any letter case
		name := string(argv[0])
		switch rapid.IntRange(0, 4).Draw(t, "case") {
		case 0:
			name = strings.ToUpper(name)
		case 1:
			name = strings.ToUpper(name[:1]) + name[1:]
		case 2:
			name = name[:1] + strings.ToUpper(name[1:])
		}
		argv = append([][]byte{[]byte(name)}, argv[1:]...)
		encodeCmd(&buf, argv)
		st.cmds = append(st.cmds, srcCmd{argv: argv, pre: pre, end: int64(buf.Len()), inTx: inTx})
	}
	// a master only propagates commands that succeeded: keep the value type of a key name fixed
	// (strings: plain name, counters "#n", lists "#l", hashes "#h")
	key := func() string {
		k := string(filterKey().Draw(t, "key"))
		if o.noCkKeys && isCheckpointKey(k) {
			k = "x-" + k
		}
		return k
	}
	tkey := func(suffix string) string { return key() + suffix }
	val := func() string {
		return rapid.OneOf(rapid.StringMatching(`[a-z0-9]{0,6}`), rapid.Map(rapid.SliceOfN(rapid.Byte(), 0, 6), func(b []byte) string { return string(b) })).Draw(t, "val")
	}
	dbgen := rapid.SampledFrom(o.dbs)
	if o.startSelect {
		add(bb("select", strconv.Itoa(dbgen.Draw(t, "db0"))))
	}
	n := rapid.IntRange(o.minCmds, o.maxCmds).Draw(t, "ncmds")
	for i := 0; i < n; i++ {
		switch k := rapid.IntRange(0, 19).Draw(t, "kind"); {
		case k <= 1 && (!inTx || o.selectInTx) && !o.noSelect:
			add(bb("select", strconv.Itoa(dbgen.Draw(t, "db"))))
		case k == 2:
			add(bb("ping"))
		case k == 3 && !o.noMulti:
			if inTx {
				add(bb("exec"))
				inTx = false
			} else {
				inTx = true
				add(bb("multi"))
				st.cmds[len(st.cmds)-1].inTx = false
			}
		case (k == 16 || k == 17) && !inTx && !o.noMulti && o.selectInTx && !o.noSelect:
			// a transaction that hops into another database and ends there
			add(bb("multi"))
			st.cmds[len(st.cmds)-1].inTx = false
			inTx = true
			if rapid.Bool().Draw(t, "hopFirst") {
				add(bb("set", key(), val()))
			}
			add(bb("select", strconv.Itoa(dbgen.Draw(t, "db"))))
			add(bb("set", key(), val()))
			add(bb("exec"))
			inTx = false
			if rapid.Bool().Draw(t, "hopBack") {
				// ... followed by a transaction in a (possibly different) database
				add(bb("select", strconv.Itoa(dbgen.Draw(t, "db"))))
				add(bb("multi"))
				st.cmds[len(st.cmds)-1].inTx = false
				inTx = true
				add(bb("set", key(), val()))
				add(bb("exec"))
				inTx = false
				add(bb("set", key(), val()))
			}
		case k == 4:
			add(bb("publish", "__sentinel__:hello", "127.0.0.1,26379,abc"))
		case k == 5:
			switch rapid.IntRange(0, 2).Draw(t, "script") {
			case 0:
				add(bb("eval", "return 1", "0"))
			case 1:
				add(bb("evalsha", "e0e1f9fabfc9d4800c877a703b823ac0578ff8db", "1", key()))
			default:
				add(bb("script", "load", "return 2"))
			}
		case k == 6:
			add(bb("opinfo", "x", "y"))
		case k == 7:
			add(bb("mset", key(), val(), key(), val()))
		case k == 8:
			add(bb(rapid.SampledFrom([]string{"del", "unlink"}).Draw(t, "delcmd"), key(), key()))
		case k == 9:
			add(bb("incr", tkey("#n")))
		case k == 10:
			add(bb("append", key(), val()))
		case k == 11:
			add(bb("rpush", tkey("#l"), val()))
		case k == 12:
			add(bb("hset", tkey("#h"), val(), val()))
		case k == 13:
			add(bb(rapid.SampledFrom([]string{"xadd", "pfadd", "customcmd", "zunionstore", "flushdb"}).Draw(t, "opaque"), key(), val()))
		case k == 14:
			add(bb("bitop", "AND", key(), key(), key()))
		case k == 15:
			add(bb("sunionstore", key(), key(), key()))
		default:
			add(bb("set", key(), val()))
		}
	}
	if inTx {
		add(bb("exec"))
	}
	st.bytes = buf.Bytes()
	return st
}

// ---- configuration of one incremental run -------------------------------------------------------

type incrConf struct {
	filt        filterConf
	targetDB    int
	resume      bool
	senderCount uint
	senderSize  uint64
}

func (c incrConf) apply() {
	o := &conf.Options
	c.filt.apply()
	o.TargetDB, o.ResumeFromBreakPoint, o.SenderCount, o.SenderSize = c.targetDB, c.resume, c.senderCount, c.senderSize
	o.Metric, o.Psync = true, true
}

func resetIncrConf() {
	incrConf{targetDB: -1, senderCount: 4095, senderSize: 104857600}.apply()
}

func drawIncrConf(t *rapid.T, resume bool) incrConf {
	c := incrConf{targetDB: -1, resume: resume}
	c.filt = drawFilterConf(t, false, nil)
	if !resume {
		c.targetDB = rapid.SampledFrom([]int{-1, -1, 0, 2, 5}).Draw(t, "targetDB")
	}
	c.senderCount = rapid.SampledFrom([]uint{1, 2, 3, 7, 1024}).Draw(t, "senderCount")
	c.senderSize = rapid.SampledFrom([]uint64{1, 64, 65535, 104857600}).Draw(t, "senderSize")
	return c
}

// ---- reference model: what must be applied on the target -------------------------------------------

type applied struct {
	db   int
	name string
	args [][]byte
	end  int64     // source stream position after the source command (0 for observed commands)
	at   time.Time // when the target executed it (observed commands)
}

func (a applied) String() string {
	parts := []string{a.name}
	for _, x := range a.args {
		parts = append(parts, fmt.Sprintf("%q", x))
	}
	return fmt.Sprintf("db%d:%s", a.db, strings.Join(parts, " "))
}

func sameApplied(a, b applied) bool {
	if a.db != b.db || a.name != b.name || len(a.args) != len(b.args) {
		return false
	}
	for i := range a.args {
		if !bytes.Equal(a.args[i], b.args[i]) {
			return false
		}
	}
	return true
}

// expectedApplied walks the source stream as the statement prescribes. startDB is the database
// selected on the source when the stream starts (resumed streams), -1 if a SELECT comes first.
func expectedApplied(st *incrStream, c incrConf, startDB int) []applied {
	var out []applied
	srcDB := startDB
	for _, sc := range st.cmds {
		name := sc.name()
		args := sc.argv[1:]
		switch name {
		case "select":
			srcDB, _ = strconv.Atoi(string(args[0]))
			continue
		case "ping":
			// a keep-alive of the source is forwarded like any command unless the selected database is filtered
			if srcDB >= 0 && !c.filt.dbPass(srcDB) {
				continue
			}
			db := srcDB
			if c.targetDB != -1 {
				db = c.targetDB
			}
			out = append(out, applied{db: db, name: name, args: args, end: sc.end})
			continue
		case "multi", "exec", "opinfo":
			continue
		case "publish":
			if len(args) > 0 && strings.EqualFold(string(args[0]), "__sentinel__:hello") {
				continue
			}
		case "eval", "evalsha", "script":
			if c.filt.lua {
				continue
			}
		}
		if !c.filt.dbPass(srcDB) {
			continue
		}
		if c.filt.hasKeyFilter() {
			if spec, ok := ref.KeySpecs[name]; ok && len(args) > 0 {
				nargs, ok := spec.Rewrite(args, func(k []byte) bool { return !isCheckpointKey(string(k)) && c.filt.listPass(string(k)) })
				if !ok {
					continue
				}
				args = nargs
			}
		}
		db := srcDB
		if c.targetDB != -1 {
			db = c.targetDB
		}
		out = append(out, applied{db: db, name: name, args: args, end: sc.end})
	}
	return out
}

// ---- running the real syncer ---------------------------------------------------------------------------

type incrInst struct {
	id       int
	srv      *mredis.Server
	ds       *dbSync.DbSyncer
	pw       *io.PipeWriter
	gid      int64
	gidCh    chan int64
	ckName   string
	lastByte time.Time
	sentAt   []sentMark // stream position -> time it had been handed to the syncer
	mu       sync.Mutex
	stopped  bool
	early    []logcap.Abort // aborts noticed while the stream was still being delivered
}

var incrSlots = make(chan int, 64)

func init() {
	for i := 0; i < cap(incrSlots); i++ {
		incrSlots <- i
	}
}

// startIncr starts one syncer instance (syncCommand) against a fresh model target.
// The global configuration must already be applied.
func startIncr(srv *mredis.Server, resumeEnabled bool, runid string, startDB int, startOffset int64) *incrInst {
	in := &incrInst{id: <-incrSlots, srv: srv, gidCh: make(chan int64, 1), ckName: "redis-shake-checkpoint"}
	in.ds = newSyncer(in.id)
	in.ds.VerifSetResume(runid, startDB, startOffset, "")
	in.ds.VerifSetResumeEnabled(resumeEnabled)
	pr, pw := io.Pipe()
	in.pw = pw
	reader := bufio.NewReaderSize(pr, 4096)
	addr := srv.Addr()
	logcap.Start(func() {
		in.gidCh <- logcap.Gid()
		in.ds.VerifSyncCommand(reader, []string{addr}, "auth", tgtSentinel, false, startDB) // never returns
	})
	in.gid = <-in.gidCh
	return in
}

type sentMark struct {
	upto int
	at   time.Time
}

// deliveredAt returns when the byte at stream position pos-1 was handed over.
func (in *incrInst) deliveredAt(pos int64) time.Time {
	in.mu.Lock()
	defer in.mu.Unlock()
	for _, m := range in.sentAt {
		if int64(m.upto) >= pos {
			return m.at
		}
	}
	return time.Time{}
}

// feed delivers the stream in fragments with pauses.
// feed delivers the stream in the scripted fragments. The pipe to the syncer is unbuffered, so a syncer that
// has aborted (or stopped reading) would block the delivery for ever: the delivery is abandoned as soon as an
// abort of this instance is recorded, or 30 s after the script should have ended.
func (in *incrInst) feed(data []byte, splits []int, delays []time.Duration) {
	done := make(chan struct{})
	go func() { defer close(done); in.feedSync(data, splits, delays) }()
	limit := 30 * time.Second
	for _, d := range delays {
		limit += d
	}
	deadline := time.NewTimer(limit)
	defer deadline.Stop()
	tick := time.NewTicker(50 * time.Millisecond)
	defer tick.Stop()
	abandon := func() {
		in.pw.CloseWithError(io.ErrClosedPipe)
		<-done
		in.mu.Lock()
		in.lastByte = time.Now().Add(-time.Hour) // nothing more will arrive: do not wait for it
		in.mu.Unlock()
	}
	for {
		select {
		case <-done:
			return
		case <-tick.C:
			if ab := logcap.Cap.TakeAbortsOf(func(a logcap.Abort) bool { return a.Parent == in.gid || a.Gid == in.gid }); len(ab) > 0 {
				in.mu.Lock()
				in.early = append(in.early, ab...)
				in.mu.Unlock()
				abandon()
				return
			}
		case <-deadline.C:
			abandon()
			return
		}
	}
}

func (in *incrInst) feedSync(data []byte, splits []int, delays []time.Duration) {
	prev := 0
	mark := func(upto int) {
		in.mu.Lock()
		in.sentAt = append(in.sentAt, sentMark{upto, time.Now()})
		in.mu.Unlock()
	}
	for i, p := range splits {
		if p > prev && p <= len(data) {
			in.pw.Write(data[prev:p])
			prev = p
			mark(p)
		}
		if i < len(delays) && delays[i] > 0 {
			time.Sleep(delays[i])
		}
	}
	if prev < len(data) {
		in.pw.Write(data[prev:])
	}
	mark(len(data))
	in.mu.Lock()
	in.lastByte = time.Now()
	in.mu.Unlock()
}

func (in *incrInst) isOwn(c mredis.Cmd) bool {
	if c.Name != "hset" || len(c.Argv) != 4 || string(c.Argv[1]) != in.ckName {
		return false
	}
	return strings.HasPrefix(string(c.Argv[2]), incrSource+"-")
}

// observed extracts the data commands the target applied, in order.
func (in *incrInst) observed() []applied {
	var out []applied
	for _, c := range in.srv.LogCopy() {
		switch c.Name {
		case "auth", "select", "multi", "exec", "info", "hgetall", "exists", "hdel":
			continue // connection set-up, transaction markers, and the checkpoint loader's reads
		}
		if in.isOwn(c) {
			continue
		}
		out = append(out, applied{db: c.DB, name: c.Name, args: c.Argv[1:], at: c.At})
	}
	return out
}

// aborts returns abort records of this instance's goroutines.
func (in *incrInst) aborts() []logcap.Abort {
	in.mu.Lock()
	out := in.early
	in.early = nil
	in.mu.Unlock()
	return append(out, logcap.Cap.TakeAbortsOf(func(a logcap.Abort) bool { return a.Parent == in.gid || a.Gid == in.gid })...)
}

func expectedStopAbort(msg string) bool {
	for _, s := range []string{"decode redis resp failed", "NetErrorWhileReceive", "ErrorReply", "SendToTargetFail", "FlushFail"} {
		if strings.Contains(msg, s) {
			return true
		}
	}
	return false
}

// stop ends the instance through the tool's own abort paths (target link cut, then EOF of the stream).
func (in *incrInst) stop() {
	in.mu.Lock()
	if in.stopped {
		in.mu.Unlock()
		return
	}
	in.stopped = true
	in.mu.Unlock()
	in.srv.CloseConns()
	go func() {
		var b bytes.Buffer
		encodeCmd(&b, bb("ping"))
		in.pw.Write(b.Bytes())
		in.pw.Close()
	}()
}

// reap waits for the instance's goroutines to end, frees its slot and closes the model.
func (in *incrInst) reap() {
	deadline := time.Now().Add(1500 * time.Millisecond)
	n := 0
	for time.Now().Before(deadline) && n < 3 {
		n += len(in.aborts())
		time.Sleep(20 * time.Millisecond)
	}
	in.srv.Close()
	incrSlots <- in.id
}

// waitApplied waits until the target has applied at least n data commands or the bound expires.
func (in *incrInst) waitApplied(n int, bound time.Duration) { in.waitFor(n, bound, true) }

// waitData is waitApplied counting data commands only (forwarded keep-alives are not counted).
func (in *incrInst) waitData(n int, bound time.Duration) { in.waitFor(n, bound, false) }

func (in *incrInst) waitFor(n int, bound time.Duration, pings bool) {
	for {
		obs := in.observed()
		if !pings {
			obs = withoutPings(obs)
		}
		if len(obs) >= n {
			return
		}
		in.mu.Lock()
		lb := in.lastByte
		in.mu.Unlock()
		if !lb.IsZero() && time.Since(lb) > bound {
			return
		}
		time.Sleep(10 * time.Millisecond)
	}
}

func drawSplits(t *rapid.T, total int, budget time.Duration) ([]int, []time.Duration) {
	n := rapid.IntRange(0, 5).Draw(t, "nsplits")
	var splits []int
	for i := 0; i < n && total > 0; i++ {
		splits = append(splits, rapid.IntRange(0, total).Draw(t, "split"))
	}
	sortInts(splits)
	var delays []time.Duration
	var sum time.Duration
	for range splits {
		d := time.Duration(rapid.SampledFrom([]int{0, 0, 0, 20, 120, 480, 520, 700}).Draw(t, "delayms")) * time.Millisecond
		if sum+d > budget {
			d = 0
		}
		sum += d
		delays = append(delays, d)
	}
	return splits, delays
}
