# Per-property run configuration of the driver (./check). One entry per claimed property.
# quick/thorough: list of test-process runs: re = -test.run regexp, checks = rapid case
# count (split over shards), shards = parallel processes with different PRNG values.

PROPS = {}
HOOK_COMMITS = ["47c42dd"]
NOT_CLAIMED = {}


def prop(pid, **kw):
    kw.setdefault("regress_re", "^Test%sRegress$" % pid)
    kw.setdefault("replay_re", "^Test%s$" % pid)
    PROPS[pid] = kw


prop("C10",
     title="RESP codec round-trips, rejects malformed input and counts bytes exactly",
     quick=[{"re": "^TestC10$", "checks": 3000}],
     thorough=[{"re": "^TestC10$", "checks": 400000, "shards": 8, "timeout": 1500},
               {"re": "^$", "fuzz": "^FuzzC10$", "fuzztime": "90s", "checks": 1, "exclusive": True, "timeout": 400}],
     rule="rapid-generated RESP trees (depth<=4, all int64 incl. table boundaries, nil/empty/binary bulk, nil/empty arrays), "
          "streams of values + inline commands + keep-alive newlines read through bufio of generated size over a reader "
          "returning generated chunk sizes; constructed malformations (every proper prefix, CR/LF substitutions at structural "
          "positions, lengths < -1, non-numeric lengths, unknown type byte in array). Oracles: reference encoder "
          "(byte-exact), structural equality with nil/empty kept, decoder position == bytes consumed == reference end "
          "offset of each value, rest of stream untouched, every malformation returns an error. Non-trivial: round-trip of a "
          "nested array > 8 bytes; stream with >=3 items, >=1 keep-alive and >=1 nested array; malformed artefact >= 6 "
          "bytes; command with >= 2 args. Distinct = hash of the encoded bytes.",
     technique="property-based testing (rapid): round-trip + reference encoder differential + position/consumption invariant + constructed-malformation rejection; native go fuzzing of the decoder fixpoint in the thorough tier",
     level_text="Generated-input search with explicit oracles; thousands (quick) to hundreds of thousands (thorough) of cases plus a coverage-guided fuzz campaign. Right level: the codec is a pure function of bytes, so generated inputs with a byte-exact reference reach every branch cheaply; no absence claim.",
     level_note="Trusted: the harness' own 40-line reference RESP encoder and tree comparison; rapid's generators/shrinker. Bounds: depth<=4, arrays<=4 wide, bulk<=40 bytes, streams<=8 items.",
     assumptions=["simple strings/errors contain no CR or LF (RESP specification)",
                  "a replaced LF in the middle of an artefact is not 'malformed' (it joins two lines into another well-formed stream); only positionally checked LFs and the final LF are corrupted",
                  "lengths with a leading '+' (accepted by strconv) are not generated as malformations"])

prop("C15",
     title="Key-to-slot mapping follows the Redis Cluster specification",
     quick=[{"re": "^TestC15(Exhaustive)?$", "checks": 20000},
            {"re": "^TestC15Range$", "checks": 150}],
     thorough=[{"re": "^TestC15(Exhaustive)?$", "checks": 3000000, "shards": 6, "timeout": 1500},
               {"re": "^TestC15Range$", "checks": 4000, "shards": 4, "timeout": 1500},
               {"re": "^TestC15AllSingleSlots$", "checks": 1, "shards": 8, "timeout": 1500}],
     rule="(1) exhaustive: every string over {'{','}','a','b'} of length 0..8 (87381 keys); (2) rapid-generated keys from a brace grammar "
          "(empty tags, unbalanced, nested, repeated, arbitrary bytes incl. invalid UTF-8); (3) slot ranges [l,r]: single slots, shard "
          "edges, random (thorough: all 16384 single-slot ranges). Oracles: utils.KeyToSlot == reference implementation of the Redis "
          "Cluster rule over a bit-by-bit CRC16/XMODEM; both private crc16 copies and go-cluster GetSlot (brace-free keys) == reference "
          "CRC16; ChoseSlotInRange key non-empty, reference slot in [l,r], excluded by filter.FilterKey; findKeyInRange key in range. "
          "Non-trivial: key with >= 2 braces; range narrower than 4 slots. Distinct = hash of key / of (l,r).",
     technique="property-based testing (rapid) + exhaustive small-alphabet enumeration against a reference implementation of the Redis Cluster hash-slot rule (differential oracle)",
     level_text="Exhaustive over all brace layouts up to length 8 plus generated search; differential against an independent reference (bitwise CRC16, literal spec rule) self-checked on published check values. The function is pure, so this is the strongest testing-level evidence available; no absence claim beyond the enumerated space.",
     level_note="Trusted: ref.CRC16 (check value 0x31C3) and ref.Slot (checked on CLUSTER KEYSLOT examples from the specification). ChoseSlotInRange is only exercised with the checkpoint prefix, as the tool does.",
     assumptions=["keys are byte strings; Go strings with invalid UTF-8 are included",
                  "slot ranges satisfy 0<=l<=r<=16383 (as produced by cluster topology discovery)"])
