//go:build verif

package props

import (
	"bufio"
	"bytes"
	"fmt"
	"io"
	"net"
	"os"
	"path/filepath"
	"strings"
	"sync"
	"testing"
	"time"

	"github.com/alibaba/RedisShake/pkg/libs/io/pipe"
	run "github.com/alibaba/RedisShake/redis-shake"
	utils "github.com/alibaba/RedisShake/redis-shake/common"
	"github.com/alibaba/RedisShake/redis-shake/dbSync"
	"github.com/alibaba/RedisShake/redis-shake/dbSync/slot"
	"golang.org/x/sync/semaphore"
	"pgregory.net/rapid"

	"verif/harness/fsrc"
	"verif/harness/logcap"
	"verif/harness/netx"
	"verif/harness/stats"
)

// fragConn limits every Read to scripted sizes so that fragmentation is decided by the generator.
type fragConn struct {
	net.Conn
	sizes []int
	i     int
}

func (f *fragConn) Read(p []byte) (int, error) {
	if len(f.sizes) > 0 && len(p) > 0 {
		s := f.sizes[f.i%len(f.sizes)]
		f.i++
		if s < 1 {
			s = 1
		}
		if s < len(p) {
			p = p[:s]
		}
	}
	return f.Conn.Read(p)
}

// closerAddr: a listener that accepts and closes at once. Reconnect attempts of left-over
// tool goroutines end there through the tool's own abort path instead of looping for ever.
var (
	closerOnce sync.Once
	closerAddr string
)

func closerListener() string {
	closerOnce.Do(func() {
		ln, err := netx.Listen()
		if err != nil {
			panic(err)
		}
		closerAddr = ln.Addr().String()
		go func() {
			for {
				c, err := ln.Accept()
				if err != nil {
					return
				}
				c.Close()
			}
		}()
	})
	return closerAddr
}

func dropLeftoverAborts() {
	logcap.Cap.TakeAbortsOf(func(a logcap.Abort) bool {
		m := a.Msg
		return strings.Contains(m, "auth command failed") || strings.Contains(m, "auth response failed") || strings.Contains(m, "listening-port") ||
			strings.Contains(m, "max amount of failures") || strings.Contains(m, "write replconf")
	})
}

type c05Case struct {
	full     bool
	leadNL   int
	midNL    int
	line     string
	runid    string
	offset   int64
	rdb      []byte
	cmds     []byte
	stream   []byte // everything the source sends after PSYNC/SYNC
	splits   []int
	delays   []time.Duration
	readFrag []int
	bufSize  int
	pipeSize int
	consume  []int
	pause    []int
	// "+CONTINUE <id>": the source announces a new replication id with the continuation
	contNewID string
}

func randCase(t *rapid.T, s string) string {
	b := []byte(s)
	for i := range b {
		if b[i] >= 'A' && b[i] <= 'Z' && rapid.Bool().Draw(t, "lower") {
			b[i] += 'a' - 'A'
		}
	}
	return string(b)
}

func trickyBytes(t *rapid.T, n int, label string) []byte {
	unit := rapid.SampledFrom([][]byte{[]byte("\n"), []byte("\r\n"), []byte("$5\r\n"), []byte("*1\r\n$4\r\nPING\r\n"), {0}, {0xff}, []byte("+CONTINUE\r\n"), []byte("ab")}).Draw(t, label+"unit")
	b := make([]byte, 0, n)
	seed := rapid.Uint32().Draw(t, label+"seed")
	for len(b) < n {
		if seed%5 == 0 {
			b = append(b, unit...)
		} else {
			b = append(b, patBytes(seed, int(seed%13)+1)...)
		}
		seed = seed*1664525 + 1013904223
	}
	return b[:n]
}

func drawC05(t *rapid.T, maxRdb, maxCmds int, sync bool) *c05Case {
	c := &c05Case{}
	c.full = sync || rapid.IntRange(0, 4).Draw(t, "full") != 0
	c.leadNL = rapid.SampledFrom([]int{0, 0, 1, 2, 5}).Draw(t, "leadNL")
	c.midNL = rapid.SampledFrom([]int{0, 0, 1, 3, 5}).Draw(t, "midNL")
	c.runid = rapid.StringMatching(`[0-9a-fA-F]{40}`).Draw(t, "runid")
	c.offset = rapid.SampledFrom([]int64{0, 1, 41, 1 << 20, 1<<32 + 5, 1 << 40}).Draw(t, "offset")
	var sb bytes.Buffer
	if !sync {
		sb.Write(bytes.Repeat([]byte("\n"), c.leadNL))
		if c.full {
			c.line = randCase(t, fmt.Sprintf("+FULLRESYNC %s %d", c.runid, c.offset))
			// the run id must come back exactly as announced: keep its case
			c.line = c.line[:12] + c.runid + c.line[12+40:]
		} else {
			c.line = randCase(t, "+CONTINUE")
			if rapid.IntRange(0, 4).Draw(t, "psync2") == 0 {
				// PSYNC2 masters announce a changed replication id with the continuation
				c.contNewID = rapid.StringMatching(`[0-9a-f]{40}`).Draw(t, "newReplID")
				c.line += " " + c.contNewID
			}
		}
		sb.WriteString(c.line + "\r\n")
	}
	if c.full {
		n := rapid.SampledFrom([]int{1, 2, 7, 100, 8191, 8192, 8193, 16384, maxRdb}).Draw(t, "n")
		if rapid.Bool().Draw(t, "nany") {
			n = rapid.IntRange(1, maxRdb).Draw(t, "nr")
		}
		c.rdb = trickyBytes(t, n, "rdb")
		sb.Write(bytes.Repeat([]byte("\n"), c.midNL))
		fmt.Fprintf(&sb, "$%d\r\n", n)
		sb.Write(c.rdb)
	}
	c.cmds = trickyBytes(t, rapid.IntRange(0, maxCmds).Draw(t, "ncmd"), "cmd")
	sb.Write(c.cmds)
	c.stream = sb.Bytes()
	total := len(c.stream)
	boundary := total - len(c.cmds) // first command byte
	header := boundary - len(c.rdb) // first RDB byte
	cand := []int{boundary - 2, boundary - 1, boundary, boundary + 1, boundary + 2, header - 3, header - 1, header, header + 1, 8192, 16384,
		header + (boundary-header)/2, boundary - 9} // inside the RDB: its tail then travels together with the first command bytes
	ns := rapid.IntRange(0, 6).Draw(t, "nsplits")
	set := map[int]bool{}
	for i := 0; i < ns; i++ {
		p := rapid.SampledFrom(cand).Draw(t, "splitAt")
		if rapid.IntRange(0, 2).Draw(t, "splitAny") == 0 {
			p = rapid.IntRange(0, total).Draw(t, "split")
		}
		if p > 0 && p < total && !set[p] {
			set[p] = true
			c.splits = append(c.splits, p)
		}
	}
	sortInts(c.splits)
	delayChoice := []int{0, 0, 50, 300, 1500}
	if sync {
		// dump mode allocates its 32 MiB reader after the size line: only a pause of tens of milliseconds makes the
		// following fragment arrive in a read of its own
		delayChoice = []int{0, 0, 300, 1500, 40000}
	}
	for range c.splits {
		c.delays = append(c.delays, time.Duration(rapid.SampledFrom(delayChoice).Draw(t, "delayus"))*time.Microsecond)
	}
	c.readFrag = rapid.SampledFrom([][]int{nil, {1}, {1, 2, 3}, {7}, {8192}, {1, 8191}, {100, 1}}).Draw(t, "readFrag")
	c.bufSize = rapid.SampledFrom([]int{16, 64, 4096, 8192, 65536}).Draw(t, "bufSize")
	c.pipeSize = rapid.SampledFrom([]int{1, 4096, 4097, 12288, 65536}).Draw(t, "pipeSize")
	c.consume = rapid.SampledFrom([][]int{{1 << 16}, {1}, {3, 5000}, {4095, 1, 4096}, {8192}}).Draw(t, "consume")
	c.pause = rapid.SampledFrom([][]int{{0}, {0, 0, 0, 200}, {50}}).Draw(t, "pause")
	return c
}

func sortInts(a []int) {
	for i := range a {
		for j := i + 1; j < len(a); j++ {
			if a[j] < a[i] {
				a[i], a[j] = a[j], a[i]
			}
		}
	}
}

// c05ForcePreDelay makes the source wait before it sends anything after SYNC/PSYNC (set by C19's slow-source path).
var c05ForcePreDelay time.Duration

func (c *c05Case) steps() []fsrc.Step {
	var steps []fsrc.Step
	if c05ForcePreDelay > 0 {
		steps = append(steps, fsrc.Step{Sleep: c05ForcePreDelay})
	}
	prev := 0
	for i, p := range c.splits {
		steps = append(steps, fsrc.Step{Send: c.stream[prev:p], Sleep: c.delays[i]})
		prev = p
	}
	steps = append(steps, fsrc.Step{Send: c.stream[prev:]})
	steps = append(steps, fsrc.Step{Sleep: 30 * time.Second}) // stay open; the harness closes the source
	return steps
}

func (c *c05Case) nontrivial() bool {
	if len(c.splits) < 2 {
		return false
	}
	total := len(c.stream)
	boundary := total - len(c.cmds)
	header := boundary - len(c.rdb)
	for _, p := range c.splits {
		if (p >= boundary-2 && p <= boundary+2) || (p > header-8 && p <= header) {
			return true
		}
	}
	return false
}

func (c *c05Case) String() string {
	return fmt.Sprintf("full=%v lead=%d mid=%d line=%q rdb=%dB cmds=%dB splits=%v readFrag=%v buf=%d pipe=%d consume=%v", c.full, c.leadNL, c.midNL, c.line, len(c.rdb), len(c.cmds), c.splits, c.readFrag, c.bufSize, c.pipeSize, c.consume)
}

// drain reads exactly want bytes from r with the scripted read sizes; returns what it got.
func drain(r io.Reader, want int, sizes, pauses []int, limit time.Duration) ([]byte, error) {
	type res struct {
		b   []byte
		err error
	}
	ch := make(chan res, 1)
	go func() {
		var got []byte
		i := 0
		for len(got) < want {
			k := sizes[i%len(sizes)]
			if i >= 400 {
				k = 1 << 16 // the scripted sizes/pauses shape the first reads; the bulk is read fast
			} else if p := pauses[i%len(pauses)]; p > 0 {
				time.Sleep(time.Duration(p) * time.Microsecond)
			}
			i++
			if k > want-len(got)+3 {
				k = want - len(got) + 3 // may read past the expected end: surplus bytes would show up
			}
			b := make([]byte, k)
			n, err := r.Read(b)
			got = append(got, b[:n]...)
			if err != nil {
				ch <- res{got, err}
				return
			}
		}
		ch <- res{got, nil}
	}()
	select {
	case x := <-ch:
		return x.b, x.err
	case <-time.After(limit):
		return nil, fmt.Errorf("timeout after %v", limit)
	}
}

func psyncArgs(src *fsrc.Source) string {
	for _, c := range src.ConnList() {
		for _, r := range c.Commands() {
			if strings.EqualFold(r.Argv[0], "psync") {
				return strings.ToLower(r.Argv[0]) + " " + strings.Join(r.Argv[1:], " ")
			}
		}
	}
	return ""
}

func newSyncer(id int) *dbSync.DbSyncer {
	node := &slot.SyncNode{Id: id, Source: "127.0.0.1:1", SourcePassword: srcSentinel, Target: []string{"127.0.0.1:1"}, TargetPassword: tgtSentinel, SlotLeftBoundary: -1, SlotRightBoundary: -1}
	return dbSync.NewDbSyncer(node, 9320, semaphore.NewWeighted(1))
}

// c05Component: SendPSyncContinue + runIncrementalSync with small buffers over a real socket.
func c05Component(t *rapid.T) {
	dropLeftoverAborts()
	c := drawC05(t, 40000, 20000, false)
	src := fsrc.New(srcSentinel, fsrc.Plan{Steps: c.steps()})
	defer src.Close()
	nc, err := net.Dial("tcp", src.Addr())
	if err != nil {
		t.Fatalf("harness: dial: %v", err)
	}
	fc := &fragConn{Conn: nc, sizes: c.readFrag}
	br := bufio.NewReaderSize(fc, c.bufSize)
	bw := bufio.NewWriterSize(fc, 4096)
	desc := c.String()
	var runid string
	var offset, nsize int64
	var perr error
	var waitNil bool
	res := logcap.RunTree(func() {
		var wait <-chan int64
		if c.full {
			runid, offset, wait, perr = utils.SendPSyncContinue(br, bw, "?", -1)
		} else {
			// a master only answers +CONTINUE to a request that names its run id and a real offset
			runid, offset, wait, perr = utils.SendPSyncContinue(br, bw, c.runid, c.offset)
		}
		if perr != nil {
			return
		}
		waitNil = wait == nil
		for wait != nil && nsize == 0 { // as sendPSyncCmd does
			select {
			case nsize = <-wait:
			case <-time.After(5 * time.Second):
				perr = fmt.Errorf("no rdb size within 5 s")
				return
			}
		}
	})
	if c.contNewID != "" {
		// refusing the continuation or adopting the announced id are both fine; keeping the old id silently is not
		if res.Completed && perr == nil && runid != c.contNewID {
			violation(t, "C05", "continue-new-id-dropped", "%s: the source answered %q; SendPSyncContinue reports run id %q", desc, c.line, runid)
			return
		}
		src.Close()
		stats.C.Case(true, stats.Hash(c.stream, []byte(desc)), "component", "continue-with-new-id")
		return
	}
	if !res.Completed || perr != nil {
		violation(t, "C05", "handshake", "%s: handshake failed: %v err=%v", desc, res, perr)
		return
	}
	if c.full {
		if waitNil || runid != c.runid || offset != c.offset || nsize != int64(len(c.rdb)) {
			violation(t, "C05", "announced-values", "%s: got runid=%q offset=%d size=%d fullsync=%v; announced runid=%q offset=%d size=%d", desc, runid, offset, nsize, !waitNil, c.runid, c.offset, len(c.rdb))
			return
		}
	} else {
		if !waitNil || offset != c.offset || runid != c.runid {
			violation(t, "C05", "continue-values", "%s: +CONTINUE answered but got fullsync=%v runid=%q offset=%d (asked to continue %q after %d)", desc, !waitNil, runid, offset, c.runid, c.offset)
			return
		}
	}
	if ps := psyncArgs(src); c.full && ps != "psync ? -1" || !c.full && ps != fmt.Sprintf("psync %s %d", c.runid, c.offset+1) {
		violation(t, "C05", "psync-request", "%s: the source received %q", desc, ps)
		return
	}
	piper, pipew := pipe.NewSize(c.pipeSize)
	ds := newSyncer(0)
	tool := logcap.Start(func() {
		ds.VerifRunIncrementalSync(fc, br, bw, int(nsize), runid, closerListener(), "auth", srcSentinel, false, pipew)
	})
	want := append(append([]byte{}, c.rdb...), c.cmds...)
	got, derr := drain(piper, len(want), c.consume, c.pause, 10*time.Second)
	select {
	case r := <-tool:
		violation(t, "C05", "copier-ended", "%s: the copy goroutine ended while the source was still connected: %v", desc, r)
		return
	default:
	}
	if derr != nil {
		violation(t, "C05", "bytes-lost", "%s: consumer got %d of %d bytes: %v (first difference at %d)", desc, len(got), len(want), derr, firstDiff(got, want))
		return
	}
	if !bytes.Equal(got, want) {
		where := "command-phase"
		if d := firstDiff(got, want); d < len(c.rdb) {
			where = "rdb-phase"
		} else if d <= len(c.rdb)+2 {
			where = "boundary"
		}
		violation(t, "C05", "bytes-differ:"+where, "%s: consumer bytes differ from RDB||commands at %d (got %d bytes, want %d)", desc, firstDiff(got, want), len(got), len(want))
		return
	}
	time.Sleep(300 * time.Microsecond)
	if n, _ := piper.Buffered(); n != 0 {
		violation(t, "C05", "surplus-bytes", "%s: %d more bytes arrived than the source sent", desc, n)
		return
	}
	src.Close() // the tool side ends through its own reconnect/abort path
	stats.C.Case(c.nontrivial(), stats.Hash(c.stream, []byte(desc)), "component", fmt.Sprintf("full=%v", c.full))
	if c.nontrivial() && len(desc) < 300 {
		stats.C.Sample("component: " + desc)
	}
}

// c05Full: the real sendPSyncCmd (32 MiB buffers) against the fake source.
func c05Full(t *rapid.T) {
	dropLeftoverAborts()
	maxRdb := 300000
	if thorough() && rapid.IntRange(0, 9).Draw(t, "huge") == 0 {
		maxRdb = 40 << 20 // crosses the 32 MiB bufio layer and the 32 MiB pipe
	}
	c := drawC05(t, maxRdb, 65536, false)
	reconnect := rapid.IntRange(0, 2).Draw(t, "reconnect") == 0
	src := fsrc.New(srcSentinel, fsrc.Plan{Steps: c.steps()}, fsrc.Plan{Steps: []fsrc.Step{{Send: []byte("+CONTINUE\r\n"), Sleep: 20 * time.Second}}})
	// the tool's reconnect loop never gives up: keep the port (refusing) until the left-over goroutine has ended through
	// its abort path, otherwise it reaches whichever later case gets the same port and asks it for this case's run id
	defer src.Retire(3 * time.Second)
	ds := newSyncer(0)
	ask := "?"
	ds.VerifSetResume("", 0, -1, "")
	if !c.full {
		ask = c.runid
		ds.VerifSetResume(c.runid, 0, c.offset, "")
	}
	desc := c.String()
	if c.full && rapid.IntRange(0, 2).Draw(t, "staleCheckpoint") == 0 {
		// the tool resumes from a checkpoint of an earlier source incarnation (other run id, offset beyond what the source
		// announces now); the source answers with a full resync: the announced run id and offset are the ones that count
		ask = "0123456789abcdef0123456789abcdef01234567"
		if rapid.Bool().Draw(t, "sameRunID") {
			ask = c.runid // the same master, but it can no longer serve the requested offset from its backlog
		}
		staleOff := c.offset + int64(rapid.SampledFrom([]int{1, 1000, 1 << 30}).Draw(t, "staleAhead"))
		ds.VerifSetResume(ask, 0, staleOff, "")
		desc += fmt.Sprintf(" resumed-from-stale-checkpoint(%s,%d)", ask[:6], staleOff)
	}
	var piper pipe.Reader
	var nsize int64
	var isFull bool
	var runid string
	var perr error
	res := logcap.RunTree(func() {
		piper, nsize, isFull, runid, perr = ds.VerifSendPSyncCmd(src.Addr(), "auth", srcSentinel, false, ask)
	})
	if c.contNewID != "" {
		// the tool may refuse such a continuation (it then falls back to a full sync elsewhere) or adopt the announced id;
		// carrying on under the id it asked with is the one thing that must not happen
		if res.Completed && perr == nil && runid != c.contNewID {
			violation(t, "C05", "full:continue-new-id-dropped", "%s: the source answered %q; the tool carries on with run id %q", desc, c.line, runid)
			return
		}
		stats.C.Case(true, stats.Hash(c.stream, []byte(desc)), "full-path", "continue-with-new-id")
		return
	}
	if !res.Completed || perr != nil {
		violation(t, "C05", "full:handshake", "%s: sendPSyncCmd failed: %v err=%v", desc, res, perr)
		return
	}
	if c.full && (!isFull || runid != c.runid || nsize != int64(len(c.rdb)) || ds.VerifSourceOffset() != c.offset) {
		violation(t, "C05", "full:announced-values", "%s: got fullsync=%v runid=%q size=%d sourceOffset=%d; announced %q %d %d", desc, isFull, runid, nsize, ds.VerifSourceOffset(), c.runid, len(c.rdb), c.offset)
		return
	}
	if !c.full && (isFull || ds.VerifSourceOffset() != c.offset || runid != c.runid) {
		violation(t, "C05", "full:continue-values", "%s: +CONTINUE: fullsync=%v sourceOffset=%d", desc, isFull, ds.VerifSourceOffset())
		return
	}
	want := append(append([]byte{}, c.rdb...), c.cmds...)
	got, derr := drain(piper, len(want), c.consume, c.pause, 15*time.Second)
	if derr != nil || !bytes.Equal(got, want) {
		violation(t, "C05", "full:bytes", "%s: consumer got %d bytes (err %v), want %d; first difference at %d", desc, len(got), derr, len(want), firstDiff(got, want))
		return
	}
	cls := []string{"full-path", fmt.Sprintf("full=%v", c.full)}
	if reconnect {
		// drop the link: the tool must come back asking for the run id the source announced
		src.ConnList()[0].Close()
		var ps string
		for dl := time.Now().Add(4 * time.Second); time.Now().Before(dl); time.Sleep(20 * time.Millisecond) {
			if cl := src.ConnList(); len(cl) >= 2 {
				for _, r := range cl[1].Commands() {
					if strings.EqualFold(r.Argv[0], "psync") {
						ps = strings.Join(r.Argv[1:], " ")
					}
				}
			}
			if ps != "" {
				break
			}
		}
		if f := strings.Fields(ps); len(f) != 2 || f[0] != c.runid {
			violation(t, "C05", "full:reconnect-runid", "%s: after the link dropped the tool asked %q; the announced run id is %q", desc, "PSYNC "+ps, c.runid)
			return
		}
		cls = append(cls, "full-path-reconnect")
	}
	stats.C.Case(c.nontrivial(), stats.Hash(c.stream, []byte(desc)), cls...)
	if c.nontrivial() && len(desc) < 300 {
		stats.C.Sample("full path: " + desc)
	}
}

// c05Dump: dump mode writes exactly the RDB and leaves the rest unread.
func c05Dump(t *rapid.T) {
	dropLeftoverAborts()
	c := drawC05(t, 100000, 20000, true)
	src := fsrc.New(srcSentinel, fsrc.Plan{Steps: c.steps()})
	defer src.Close()
	dir, err := os.MkdirTemp("", "verif-c05-")
	if err != nil {
		t.Fatalf("harness: %v", err)
	}
	defer os.RemoveAll(dir)
	out := filepath.Join(dir, "dump.rdb")
	desc := c.String()
	if rapid.IntRange(0, 2).Draw(t, "outputExists") == 0 {
		// the output path already holds an older, longer dump: the new file must still be exactly the RDB
		old := bytes.Repeat([]byte("old dump "), (len(c.rdb)+rapid.IntRange(1, 5000).Draw(t, "oldExtra"))/9+1)
		if err := os.WriteFile(out, old, 0644); err != nil {
			t.Fatalf("harness: %v", err)
		}
		desc += fmt.Sprintf(" output-path-holds-%dB", len(old))
	}
	var rd *bufio.Reader
	var size int64
	var res logcap.Result
	resCh := logcap.Start(func() { rd, _, size = run.VerifDump(0, src.Addr(), srcSentinel, out) })
	select {
	case res = <-resCh:
		if ab := logcap.Cap.TakeAbortsOf(func(a logcap.Abort) bool { return a.Parent == res.Gid }); len(ab) > 0 && res.Completed {
			res.Completed, res.Aborted, res.AbortMsg = false, true, ab[0].Msg
		}
	case <-time.After(12 * time.Second):
		src.Close() // frees the dumper through its abort path
		violation(t, "C05", "dump:stuck", "%s: the source sent the whole reply, yet dump did not finish within 12 s (bytes swallowed before the RDB consumer?)", desc)
		return
	}
	if !res.Completed {
		violation(t, "C05", "dump:abort", "%s: dump aborted: %v", desc, res)
		return
	}
	file, _ := os.ReadFile(out)
	if size != int64(len(c.rdb)) || !bytes.Equal(file, c.rdb) {
		violation(t, "C05", "dump:file", "%s: output file has %d bytes (returned size %d), RDB has %d; first difference at %d", desc, len(file), size, len(c.rdb), firstDiff(file, c.rdb))
		return
	}
	// what is still readable from the returned reader must be a prefix of the command bytes
	rest := make([]byte, rd.Buffered())
	io.ReadFull(rd, rest)
	if !bytes.HasPrefix(c.cmds, rest) {
		violation(t, "C05", "dump:rest", "%s: %d bytes left in the reader are not the start of the command stream (first difference at %d)", desc, len(rest), firstDiff(rest, c.cmds))
		return
	}
	stats.C.Case(c.nontrivial(), stats.Hash(c.stream, []byte(desc)), "dump")
	if c.nontrivial() && len(desc) < 300 {
		stats.C.Sample("dump: " + desc)
	}
}

func TestC05(t *testing.T)     { rapid.Check(t, c05Component) }
func TestC05Full(t *testing.T) { rapid.Check(t, c05Full) }
func TestC05Dump(t *testing.T) { rapid.Check(t, c05Dump) }

func TestC05Regress(t *testing.T) {}
