//go:build verif

package props

import (
	"strconv"
	"strings"

	conf "github.com/alibaba/RedisShake/redis-shake/configure"
	"pgregory.net/rapid"

	"verif/harness/ref"
)

// filterConf is a filter configuration satisfying the sanitiser's post-conditions.
type filterConf struct {
	dbWhite, dbBlack   []string
	keyWhite, keyBlack []string
	slots              []string
	lua                bool
	// unset lists are handed over as empty non-nil slices (what parsing an empty configuration value leaves) instead of nil
	emptyNotNil bool
}

func (f filterConf) apply() {
	o := &conf.Options
	l := func(x []string) []string {
		if len(x) == 0 && f.emptyNotNil {
			return []string{}
		}
		return x
	}
	o.FilterDBWhitelist, o.FilterDBBlacklist = l(f.dbWhite), l(f.dbBlack)
	o.FilterKeyWhitelist, o.FilterKeyBlacklist = l(f.keyWhite), l(f.keyBlack)
	o.FilterSlot, o.FilterLua = l(f.slots), f.lua
}

func resetFilters() { filterConf{}.apply() }

func (f filterConf) hasKeyFilter() bool { return len(f.keyWhite) > 0 || len(f.keyBlack) > 0 }

// reference predicates written from the statement of C06
func (f filterConf) dbPass(db int) bool {
	s := strconv.Itoa(db)
	in := func(l []string) bool {
		for _, x := range l {
			if x == s {
				return true
			}
		}
		return false
	}
	if len(f.dbBlack) > 0 {
		return !in(f.dbBlack)
	}
	if len(f.dbWhite) > 0 {
		return in(f.dbWhite)
	}
	return true
}

func (f filterConf) listPass(key string) bool {
	pre := func(l []string) bool {
		for _, p := range l {
			if strings.HasPrefix(key, p) {
				return true
			}
		}
		return false
	}
	if len(f.keyBlack) > 0 {
		return !pre(f.keyBlack)
	}
	if len(f.keyWhite) > 0 {
		return pre(f.keyWhite)
	}
	return true
}

func isCheckpointKey(key string) bool { return strings.HasPrefix(key, "redis-shake-checkpoint") }

func (f filterConf) slotPass(key string) bool {
	if len(f.slots) == 0 {
		return true
	}
	s := ref.Slot([]byte(key))
	for _, x := range f.slots {
		// the list holds numbers: "007" and "+12" name slots 7 and 12 (the option check accepts whatever parses)
		if n, err := strconv.Atoi(x); err == nil && n == s {
			return true
		}
	}
	return false
}

var filterPrefixes = []string{"a", "ab", "abc", "b", "k:", "{", "user:", "redis-shake", "\xff"}

func drawFilterConf(t *rapid.T, withSlots bool, keys []string) filterConf {
	var f filterConf
	f.emptyNotNil = rapid.Bool().Draw(t, "emptyListsNotNil")
	dbs := rapid.SliceOfNDistinct(rapid.SampledFrom([]string{"0", "1", "2", "3", "10", "11", "15"}), 1, 3, func(s string) string { return s })
	switch rapid.IntRange(0, 3).Draw(t, "dbfilter") {
	case 0:
		f.dbWhite = dbs.Draw(t, "dbWhite")
	case 1:
		f.dbBlack = dbs.Draw(t, "dbBlack")
	}
	pre := rapid.SliceOfNDistinct(rapid.SampledFrom(filterPrefixes), 1, 3, func(s string) string { return s })
	switch rapid.IntRange(0, 3).Draw(t, "keyfilter") {
	case 0:
		f.keyWhite = pre.Draw(t, "keyWhite")
	case 1:
		f.keyBlack = pre.Draw(t, "keyBlack")
	}
	if withSlots && rapid.IntRange(0, 3).Draw(t, "slotfilter") == 0 {
		// slots of some of the keys at hand, so that both outcomes occur
		seen := map[string]bool{}
		for _, k := range keys {
			if rapid.Bool().Draw(t, "slotOfKey") {
				s := strconv.Itoa(ref.Slot([]byte(k)))
				if !seen[s] {
					seen[s] = true
					f.slots = append(f.slots, s)
				}
			}
		}
		if len(f.slots) == 0 {
			f.slots = []string{"0"}
		}
		for i := range f.slots {
			switch rapid.IntRange(0, 5).Draw(t, "slotSpelling") {
			case 4:
				f.slots[i] = "0" + f.slots[i]
			case 5:
				f.slots[i] = "+" + f.slots[i]
			}
		}
	}
	f.lua = rapid.IntRange(0, 3).Draw(t, "filterlua") == 0
	return f
}

// filterKey generates keys that are prefixes of / equal to / extend the listed prefixes.
func filterKey() *rapid.Generator[[]byte] {
	return rapid.Custom(func(t *rapid.T) []byte {
		switch rapid.IntRange(0, 5).Draw(t, "fk") {
		case 0:
			return []byte(rapid.SampledFrom(filterPrefixes).Draw(t, "exact"))
		case 1, 2:
			return []byte(rapid.SampledFrom(filterPrefixes).Draw(t, "ext") + rapid.StringMatching(`[a-c:{}]{0,4}`).Draw(t, "tail"))
		case 3:
			return []byte(rapid.SampledFrom([]string{"redis-shake-checkpoint", "redis-shake-checkpoint-abcd", "redis-shake-checkpoinx", "redis-shake-checkpoin", "c", "", "zz{a}", "{}{a}", "a{}{b}c", "{}k{zz}", "{a}{b}", "lua"}).Draw(t, "special"))
		default:
			return []byte(rapid.StringMatching(`[a-dk:{}]{0,5}`).Draw(t, "free"))
		}
	})
}
