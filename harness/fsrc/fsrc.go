// Package fsrc is a fake Redis replication source: it accepts connections on a
// loopback port, answers AUTH / REPLCONF / PING, records every command with a
// timestamp and the number of replication-stream bytes it had sent at that moment,
// and, once SYNC or PSYNC arrives, plays a scripted sequence of sends, pauses and
// a final close. Each accepted connection takes the next plan.
package fsrc

import (
	"bufio"
	"fmt"
	"io"
	"net"
	"strconv"
	"strings"
	"sync"
	"time"
	"verif/harness/netx"
)

type Step struct {
	Send  []byte
	Sleep time.Duration
	Close bool // close the connection now (after everything sent was flushed to the socket)
	// Mark: bytes of Send that belong to the replication stream (counted for offsets);
	// the reply line, keep-alives before the RDB, the '$n' header and the RDB do not count.
	Stream bool
	Hook   func(c *Conn) // called at this point of the script
}

// Plan is what one accepted connection does after SYNC/PSYNC arrived.
type Plan struct {
	Steps  []Step
	Refuse bool // close right after accept (reconnect attempt fails)
	// WantPSync, when set, is called with the PSYNC arguments; it may return replacement steps.
	OnPSync func(runid string, offset int64) []Step
}

type Recv struct {
	Argv       []string
	At         time.Time
	StreamSent int64 // replication-stream bytes handed to the socket before this command was read
}

type Conn struct {
	ID         int
	c          net.Conn
	mu         sync.Mutex
	Cmds       []Recv
	streamSent int64
	Closed     bool
	ClosedAt   time.Time
	PSyncAt    time.Time
	Replica    bool          // the connection sent SYNC/PSYNC
	Marks      []SentMark    // cumulative stream bytes after each stream send, with the time the write returned
	Done       chan struct{} // closed when the plan has been played
}

type SentMark struct {
	At    time.Time
	Total int64
}

// SentBy returns the number of replication-stream bytes whose write had returned by t.
func (c *Conn) SentBy(t time.Time) int64 {
	c.mu.Lock()
	defer c.mu.Unlock()
	var n int64
	for _, m := range c.Marks {
		if !m.At.After(t) {
			n = m.Total
		}
	}
	return n
}

func (c *Conn) StreamSent() int64 { c.mu.Lock(); defer c.mu.Unlock(); return c.streamSent }

func (c *Conn) Commands() []Recv {
	c.mu.Lock()
	defer c.mu.Unlock()
	return append([]Recv(nil), c.Cmds...)
}

func (c *Conn) Close() { c.c.Close() }

type Source struct {
	ln       net.Listener
	Password string
	mu       sync.Mutex
	plans    []Plan
	Conns    []*Conn
	closed   bool
	addr     string
	Default  *Plan // used when the plans are exhausted (nil: refuse)
	// Role reported by INFO ("" = master)
	Role           string
	relistenFailed bool
	// RequireAuth: commands on a connection that has not authenticated are answered with -NOAUTH
	// (off by default: component-level checks drive single connections without the AUTH step)
	RequireAuth bool
}

func New(password string, plans ...Plan) *Source {
	s := &Source{Password: password, plans: plans}
	ln, err := netx.Listen()
	if err != nil {
		panic(err)
	}
	s.ln = ln
	s.addr = ln.Addr().String()
	go s.acceptLoop()
	return s
}

func (s *Source) Addr() string { return s.addr }

// Pause stops listening for d (connection attempts are refused), then listens again on the same port.
func (s *Source) Pause(d time.Duration) {
	s.mu.Lock()
	ln := s.ln
	s.mu.Unlock()
	ln.Close()
	time.AfterFunc(d, func() {
		for i := 0; i < 50; i++ {
			nl, err := net.Listen("tcp", s.addr)
			if err == nil {
				s.mu.Lock()
				closed := s.closed
				if !closed {
					s.ln = nl
				}
				s.mu.Unlock()
				if closed {
					nl.Close()
					return
				}
				go s.acceptLoop()
				return
			}
			time.Sleep(20 * time.Millisecond)
		}
		// the port went to somebody else while it was free (another test process on this machine)
		s.mu.Lock()
		s.relistenFailed = true
		s.mu.Unlock()
	})
}

// RelistenFailed: a Pause could not get the port back; what the tool did afterwards says nothing about the tool.
func (s *Source) RelistenFailed() bool {
	s.mu.Lock()
	defer s.mu.Unlock()
	return s.relistenFailed
}

func (s *Source) Close() {
	s.mu.Lock()
	s.closed = true
	conns := append([]*Conn(nil), s.Conns...)
	ln := s.ln
	s.mu.Unlock()
	ln.Close()
	for _, c := range conns {
		c.c.Close()
	}
}

// Retire ends the source's part in a case without releasing its port yet: every open connection is
// closed, remaining plans are dropped and for d every new connection is accepted and closed at once, so
// that tool goroutines still trying to reconnect to this address end through their own abort path
// instead of reaching whichever listener gets the port next. Then the listener is closed.
func (s *Source) Retire(d time.Duration) {
	s.mu.Lock()
	s.plans = nil
	s.Default = &Plan{Refuse: true}
	conns := append([]*Conn(nil), s.Conns...)
	s.mu.Unlock()
	for _, c := range conns {
		c.c.Close()
	}
	time.AfterFunc(d, s.Close)
}

// Silence ends the source's part in a case and keeps its port for good: every open connection is closed,
// remaining plans are dropped and every later connection is accepted and closed at once. For end-to-end runs,
// whose syncer keeps a poller that must never find the port gone (see runE2E).
func (s *Source) Silence() {
	s.mu.Lock()
	s.plans = nil
	s.Default = &Plan{Refuse: true}
	conns := append([]*Conn(nil), s.Conns...)
	s.mu.Unlock()
	for _, c := range conns {
		c.c.Close()
	}
}

func (s *Source) ConnList() []*Conn {
	s.mu.Lock()
	defer s.mu.Unlock()
	return append([]*Conn(nil), s.Conns...)
}

func (s *Source) AddPlan(p Plan) {
	s.mu.Lock()
	defer s.mu.Unlock()
	s.plans = append(s.plans, p)
}

func (s *Source) acceptLoop() {
	s.mu.Lock()
	ln := s.ln
	s.mu.Unlock()
	for {
		nc, err := ln.Accept()
		if err != nil {
			return
		}
		if tc, ok := nc.(*net.TCPConn); ok {
			tc.SetNoDelay(true)
		}
		s.mu.Lock()
		if s.closed {
			s.mu.Unlock()
			nc.Close()
			return
		}
		c := &Conn{ID: len(s.Conns), c: nc, Done: make(chan struct{})}
		s.Conns = append(s.Conns, c)
		refuseAll := len(s.plans) == 0 && s.Default != nil && s.Default.Refuse
		s.mu.Unlock()
		if refuseAll {
			c.markClosed()
			nc.Close()
			close(c.Done)
			continue
		}
		go s.serve(c)
		continue
	}
}

func (c *Conn) markClosed() {
	c.mu.Lock()
	c.Closed, c.ClosedAt = true, time.Now()
	c.mu.Unlock()
}

func readCmd(br *bufio.Reader) ([]string, error) {
	line, err := br.ReadString('\n')
	if err != nil {
		return nil, err
	}
	line = strings.TrimRight(line, "\r\n")
	if line == "" {
		return nil, nil
	}
	if line[0] != '*' {
		return strings.Fields(line), nil
	}
	n, err := strconv.Atoi(line[1:])
	if err != nil {
		return nil, fmt.Errorf("fsrc: bad header %q", line)
	}
	out := make([]string, 0, n)
	for i := 0; i < n; i++ {
		h, err := br.ReadString('\n')
		if err != nil {
			return nil, err
		}
		l, err := strconv.Atoi(strings.TrimRight(h[1:], "\r\n"))
		if err != nil {
			return nil, fmt.Errorf("fsrc: bad bulk header %q", h)
		}
		b := make([]byte, l+2)
		if _, err := io.ReadFull(br, b); err != nil {
			return nil, err
		}
		out = append(out, string(b[:l]))
	}
	return out, nil
}

// takePlan hands the next plan to a connection that has just asked for SYNC/PSYNC (other
// connections, e.g. the tool's offset poller, never consume one).
func (s *Source) takePlan() *Plan {
	s.mu.Lock()
	defer s.mu.Unlock()
	if len(s.plans) > 0 {
		p := s.plans[0]
		s.plans = s.plans[1:]
		return &p
	}
	return s.Default
}

func (s *Source) serve(c *Conn) {
	br := bufio.NewReader(c.c)
	started := false
	startCh := make(chan []Step, 1)
	// reader: records commands for the whole life of the connection
	go func() {
		authed := false
		for {
			argv, err := readCmd(br)
			if err != nil {
				return
			}
			if len(argv) == 0 {
				continue
			}
			c.mu.Lock()
			c.Cmds = append(c.Cmds, Recv{Argv: argv, At: time.Now(), StreamSent: c.streamSent})
			c.mu.Unlock()
			name := strings.ToLower(argv[0])
			switch name {
			case "auth", "ping", "replconf", "sync", "psync", "info":
				if name != "auth" && s.RequireAuth && s.Password != "" && !authed {
					c.c.Write([]byte("-NOAUTH Authentication required.\r\n"))
					continue
				}
			default:
				// as Redis >= 5 does: an unknown command is answered, authenticated or not, with an error that echoes its first arguments
				var b strings.Builder
				fmt.Fprintf(&b, "-ERR unknown command `%s`, with args beginning with: ", argv[0])
				for _, a := range argv[1:] {
					fmt.Fprintf(&b, "`%.128s`, ", a)
				}
				c.c.Write([]byte(b.String() + "\r\n"))
				continue
			}
			switch name {
			case "auth":
				if s.Password == "" || (len(argv) == 2 && argv[1] == s.Password) {
					authed = true
					c.c.Write([]byte("+OK\r\n"))
				} else {
					c.c.Write([]byte("-ERR invalid password\r\n"))
				}
			case "ping":
				c.c.Write([]byte("+PONG\r\n"))
			case "replconf":
				if len(argv) >= 2 && strings.EqualFold(argv[1], "ack") {
					continue // no reply to REPLCONF ACK
				}
				c.c.Write([]byte("+OK\r\n"))
			case "sync", "psync":
				if started {
					continue
				}
				started = true
				c.mu.Lock()
				c.PSyncAt = time.Now()
				c.Replica = true
				c.mu.Unlock()
				plan := s.takePlan()
				if plan == nil || plan.Refuse {
					startCh <- []Step{{Close: true}}
					continue
				}
				steps := plan.Steps
				if plan.OnPSync != nil && len(argv) == 3 {
					off, _ := strconv.ParseInt(argv[2], 10, 64)
					if r := plan.OnPSync(argv[1], off); r != nil {
						steps = r
					}
				}
				startCh <- steps
			case "info":
				role := s.Role
				if role == "" {
					role = "master"
				}
				body := "# Replication\r\nrole:" + role + "\r\n"
				c.c.Write([]byte(fmt.Sprintf("$%d\r\n%s\r\n", len(body), body)))
			default:
				c.c.Write([]byte("+OK\r\n"))
			}
		}
	}()
	var steps []Step
	select {
	case steps = <-startCh:
	case <-time.After(120 * time.Second):
		c.c.Close()
		c.markClosed()
		close(c.Done)
		return
	}
	for _, st := range steps {
		if st.Hook != nil {
			st.Hook(c)
		}
		if len(st.Send) > 0 {
			if _, err := c.c.Write(st.Send); err != nil {
				break
			}
			if st.Stream {
				c.mu.Lock()
				c.streamSent += int64(len(st.Send))
				c.Marks = append(c.Marks, SentMark{time.Now(), c.streamSent})
				c.mu.Unlock()
			}
		}
		if st.Sleep > 0 {
			time.Sleep(st.Sleep)
		}
		if st.Close {
			c.markClosed()
			c.c.Close()
			break
		}
	}
	close(c.Done)
}
