#!/usr/bin/env python3
"""keep_seed.py <seed dir> <id> <caught:yes|no> <by which check / signature>  -> /verif/seeded/<id>/"""
import json, os, shutil, sys
src, sid, caught, how = sys.argv[1:5]
dst = os.path.join("/verif/seeded", sid)
os.makedirs(dst, exist_ok=True)
for f in ("patch.diff", "demo_test.go"):
    shutil.copy(os.path.join(src, f), os.path.join(dst, f))
m = json.load(open(os.path.join(src, "meta.json")))
m["confirmed_by_me"] = {"what_i_ran": "tools/confirm_seed.sh (scratch worktree: patch applies, packages build, pinned ./pkg/... tests pass, demo fails with the patch and passes without) and tools/try_patch.sh (patch applied to a scratch worktree of /repo's HEAD, ./check <property> run against it through VERIF_REPO, worktree removed)",
                        "caught_by_check": caught == "yes", "how": how}
json.dump(m, open(os.path.join(dst, "meta.json"), "w"), indent=1)
print("kept", dst)
