#!/bin/bash
# usage: confirm_seed.sh <dir with patch.diff demo_test.go meta.json>
# Confirms in a scratch worktree: patch applies, tree builds, pinned tests pass, demo fails with and passes without the patch.
set -u
d="$(realpath "$1")"
export GOFLAGS=-mod=mod GOPROXY=off GOSUMDB=off GOTOOLCHAIN=local
wt=$(mktemp -d /tmp/wt-confirm-XXXX)
git -C /repo worktree add -q --detach "$wt" HEAD || exit 3
cleanup() { git -C /repo worktree remove --force "$wt" 2>/dev/null; rm -rf "$wt"; }
trap cleanup EXIT
pkgdir=$(python3 -c "import json;print(json.load(open('$d/meta.json'))['demo_package_dir'])")
run_demo() { (cd "$wt/src" && go test -vet=off -count=1 -run "$(grep -o 'func Test[A-Za-z0-9_]*' "$wt/$pkgdir/zz_demo_test.go" | sed 's/func //' | paste -sd'|')" "./${pkgdir#src/}" >/tmp/demo.out 2>&1); echo $?; }
cp "$d/demo_test.go" "$wt/$pkgdir/zz_demo_test.go"
without=$(run_demo)
git -C "$wt" apply "$d/patch.diff" || { echo "APPLY-FAILED"; exit 3; }
(cd "$wt/src" && go build ./pkg/... ./redis-shake ./redis-shake/common/... ./redis-shake/dbSync/... ./redis-shake/filter/... ./redis-shake/checkpoint/... ./redis-shake/scanner/... >/tmp/build.out 2>&1); build=$?
with=$(run_demo)
rm "$wt/$pkgdir/zz_demo_test.go"
(cd "$wt/src" && go test -vet=off -count=1 ./pkg/... 2>&1 | grep -E "^FAIL[[:space:]]+[^[:space:]]" | grep -v "cupcake/rdb" >/tmp/suite.out); suite=$?
echo "demo_without_patch_rc=$without demo_with_patch_rc=$with build_rc=$build suite_has_fail=$([ $suite -eq 0 ] && echo yes || echo no)"
if [ "$without" = 0 ] && [ "$with" != 0 ] && [ $build = 0 ] && [ $suite != 0 ]; then echo CONFIRMED; else echo NOT-CONFIRMED; cat /tmp/suite.out; tail -5 /tmp/demo.out; fi
