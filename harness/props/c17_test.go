//go:build verif

package props

import (
	"bufio"
	"bytes"
	"encoding/base64"
	"encoding/binary"
	"encoding/json"
	"fmt"
	"math"
	"os"
	"path/filepath"
	"sort"
	"strconv"
	"strings"
	"testing"

	run "github.com/alibaba/RedisShake/redis-shake"
	conf "github.com/alibaba/RedisShake/redis-shake/configure"
	"pgregory.net/rapid"

	"verif/harness/gen"
	"verif/harness/logcap"
	"verif/harness/stats"
)

func b64(b []byte) string { return base64.StdEncoding.EncodeToString(b) }

// expectedLines renders the multiset of canonical line keys a file must produce.
func expectedLines(f *gen.File) []string {
	var out []string
	for _, r := range f.Records {
		if r.IsLua {
			out = append(out, fmt.Sprintf("aux|lua|%s", r.ValBytes))
			continue
		}
		v := r.Logical
		head := fmt.Sprintf("%d|%s|%d|%s", r.DB, v.Kind, r.ExpireAt, b64(r.Key))
		switch v.Kind {
		case "string":
			out = append(out, head+"|"+b64(v.Str))
		case "list":
			for i, e := range v.List {
				out = append(out, fmt.Sprintf("%s|%d|%s", head, i, b64(e)))
			}
		case "set":
			for _, e := range v.Set {
				out = append(out, head+"|"+b64(e))
			}
		case "hash":
			for _, e := range v.Hash {
				out = append(out, head+"|"+b64(e.Field)+"|"+b64(e.Value))
			}
		case "zset":
			for _, e := range v.ZSet {
				out = append(out, fmt.Sprintf("%s|%s|%016x", head, b64(e.Member), math.Float64bits(e.Score+0)))
			}
		}
	}
	sort.Strings(out)
	return out
}

// parseLine turns one output line into the canonical key; "" + error text when unusable.
func parseLine(line string) (string, string) {
	var m map[string]interface{}
	dec := json.NewDecoder(strings.NewReader(line))
	dec.UseNumber()
	if err := dec.Decode(&m); err != nil {
		return "", "not JSON: " + err.Error()
	}
	str := func(k string) string { s, _ := m[k].(string); return s }
	num := func(k string) string { n, _ := m[k].(json.Number); return n.String() }
	typ := str("type")
	if typ == "aux" {
		val := str("value64")
		if d, err := base64.StdEncoding.DecodeString(val); err == nil && len(d) > 0 && strings.Contains(string(d), "return") {
			val = string(d) // either the raw script or its base64 form is accepted
		}
		return fmt.Sprintf("aux|%s|%s", str("key"), val), ""
	}
	head := fmt.Sprintf("%s|%s|%s|%s", num("db"), typ, num("expireat"), str("key64"))
	switch typ {
	case "string":
		return head + "|" + str("value64"), ""
	case "list":
		return fmt.Sprintf("%s|%s|%s", head, num("index"), str("value64")), ""
	case "set":
		return head + "|" + str("member64"), ""
	case "hash":
		return head + "|" + str("field64") + "|" + str("value64"), ""
	case "zset":
		var f float64
		var err error
		switch sc := m["score"].(type) {
		case json.Number:
			f, err = sc.Float64()
		case string: // non-finite scores cannot be JSON numbers
			f, err = strconv.ParseFloat(sc, 64)
		default:
			err = fmt.Errorf("missing")
		}
		if err != nil {
			return "", "score not numeric: " + fmt.Sprint(m["score"])
		}
		return fmt.Sprintf("%s|%s|%016x", head, str("member64"), math.Float64bits(f+0)), ""
	}
	return "", "unknown type " + typ
}

func hasInfScore(f *gen.File) bool {
	for _, r := range f.Records {
		if r.Logical != nil && r.Logical.Kind == "zset" {
			for _, e := range r.Logical.ZSet {
				if math.IsInf(e.Score, 0) {
					return true
				}
			}
		}
	}
	return false
}

func runDecode(t fataler, data []byte, parallel int) (lines []string, res logcap.Result) {
	dir, err := os.MkdirTemp("", "verif-c17-")
	if err != nil {
		t.Fatalf("harness: %v", err)
	}
	defer os.RemoveAll(dir)
	in, out := filepath.Join(dir, "in.rdb"), filepath.Join(dir, "out.json")
	if err := os.WriteFile(in, data, 0644); err != nil {
		t.Fatalf("harness: %v", err)
	}
	if len(data) < 1<<20 {
		// the output path already holds the (longer) result of an earlier decode: it must be replaced, not overwritten in place
		old := bytes.Repeat([]byte("{\"db\":0,\"type\":\"string\",\"expireat\":0,\"key\":\"stale\",\"key64\":\"c3RhbGU=\",\"value64\":\"b2xk\"}\n"), 8*len(data)/80+64)
		if err := os.WriteFile(out, old, 0644); err != nil {
			t.Fatalf("harness: %v", err)
		}
	}
	conf.Options.Parallel = parallel
	defer func() { conf.Options.Parallel = 1 }()
	var gid int64
	res = logcap.Run(func() {
		gid = logcap.Gid()
		(&run.CmdDecode{}).VerifDecode(in, out)
	})
	// aborts on goroutines started by decode (parser, workers, writer)
	if ab := logcap.Cap.TakeAborts(); len(ab) > 0 && res.Completed {
		res.Completed, res.Aborted, res.AbortMsg = false, true, ab[0].Msg
	}
	_ = gid
	fh, err := os.Open(out)
	if err == nil {
		sc := bufio.NewScanner(fh)
		sc.Buffer(make([]byte, 1<<20), 64<<20)
		for sc.Scan() {
			lines = append(lines, sc.Text())
		}
		fh.Close()
	}
	return
}

func c17Case(t *rapid.T) {
	inf11 := isKnown("C17", "abort:zset-score-nonfinite")
	f := gen.DrawFile(t, gen.FileOpts{MaxDBs: 3, MaxKeys: 6, MaxElems: 40, ClassicOnly: true, FiniteScores: inf11})
	if inf11 {
		stats.C.Exclude("files are generated with finite scores only (known finding abort:zset-score-nonfinite)")
	}
	parallel := rapid.IntRange(1, 8).Draw(t, "parallel")
	defer quietLog()()
	c17Check(t, f, parallel)
}

func c17Check(t fataler, f *gen.File, parallel int) {
	lines, res := runDecode(t, f.Bytes, parallel)
	desc := fmt.Sprintf("rdb v%d, %d records, parallel=%d, encodings %v", f.Version, len(f.Records), parallel, labelList(f.Labels))
	if !res.Completed {
		sig := "abort"
		if hasInfScore(f) && strings.Contains(res.String(), "json") {
			sig = "abort:zset-score-nonfinite"
		}
		violation(t, "C17", sig, "%s: decode aborted: %v", desc, res)
		return
	}
	var got []string
	for i, l := range lines {
		k, bad := parseLine(l)
		if bad != "" {
			violation(t, "C17", "bad-line", "%s: output line %d unusable (%s): %s", desc, i, bad, l)
			return
		}
		got = append(got, k)
	}
	sort.Strings(got)
	want := expectedLines(f)
	if len(got) != len(want) {
		violation(t, "C17", "line-count", "%s: %d output lines, %d elements+scripts in the file; first difference: %s", desc, len(got), len(want), firstLineDiff(got, want))
		return
	}
	for i := range want {
		if got[i] != want[i] {
			violation(t, "C17", "line-content", "%s: output differs from the file's elements: %s", desc, firstLineDiff(got, want))
			return
		}
	}
	types := map[string]bool{}
	nonUTF8 := false
	for _, r := range f.Records {
		if r.Logical != nil {
			types[r.Logical.Kind] = true
		}
		if !utf8Valid(r.Key) {
			nonUTF8 = true
		}
	}
	nt := nonUTF8 && len(types) >= 3 && parallel >= 2
	stats.C.Case(nt, stats.Hash(f.Bytes, []byte{byte(parallel)}), fmt.Sprintf("parallel=%d", parallel))
	if nt && len(lines) < 14 {
		stats.C.Sample(desc + " => " + strings.Join(lines, " ; "))
	}
}

func utf8Valid(b []byte) bool {
	for _, c := range b {
		if c < 0x20 || c >= 0x7f {
			return false
		}
	}
	return true
}

// firstLineDiff names the first line that is in one multiset only; long lines are clipped, and when the other side has a
// line for the same element (same text up to the last '|') the lengths and the first differing position are given.
func firstLineDiff(got, want []string) string {
	d := firstLineDiffRaw(got, want)
	i := strings.Index(d, "line ")
	if i < 0 {
		return d
	}
	line := d[i+5:]
	other := want
	if strings.HasPrefix(d, "missing") {
		other = got
	}
	detail := ""
	if k := strings.LastIndex(line, "|"); k > 0 {
		for _, o := range other {
			if strings.HasPrefix(o, line[:k+1]) && o != line {
				p := 0
				for p < len(o) && p < len(line) && o[p] == line[p] {
					p++
				}
				detail = fmt.Sprintf(" (the other side has a line for the same element: lengths %d vs %d, first difference at character %d)", len(line), len(o), p)
				break
			}
		}
	}
	if len(line) > 200 {
		line = line[:200] + fmt.Sprintf("...(%d characters)", len(line))
	}
	return d[:i+5] + line + detail
}

func firstLineDiffRaw(got, want []string) string {
	gi, wi := 0, 0
	for gi < len(got) && wi < len(want) {
		switch {
		case got[gi] == want[wi]:
			gi++
			wi++
		case got[gi] < want[wi]:
			return "unexpected line " + got[gi]
		default:
			return "missing line " + want[wi]
		}
	}
	if gi < len(got) {
		return "unexpected line " + got[gi]
	}
	if wi < len(want) {
		return "missing line " + want[wi]
	}
	return ""
}

func TestC17(t *testing.T) { rapid.Check(t, c17Case) }

// c17Chunked: a file holding one hash beyond the loader's 16 MiB chunk limit (sizes placed around the limit: exactly on
// it, one byte either side, crossing on the last pair, two and three chunks) between small keys, decoded with 1-4 workers.
func c17Chunked(t *rapid.T) {
	bh := drawBigHashFile(t)
	hv := gen.Value{Kind: "hash"}
	for i, f := range bh.fields {
		hv.Hash = append(hv.Hash, gen.HE{Field: f, Value: bh.pairBytes[bh.valSpans[i][0]:bh.valSpans[i][1]]})
	}
	bh.file.Records[bh.keyIndex].Logical = &hv
	defer quietLog()()
	c17Check(t, bh.file, rapid.IntRange(1, 4).Draw(t, "parallel"))
}

func TestC17Chunked(t *testing.T) { rapid.Check(t, c17Chunked) }

// hand-built files for the regression tier
func handFile(records []gen.Record) *gen.File {
	b := []byte("REDIS0009")
	b = append(b, gen.OpSelectDB, 0)
	for _, r := range records {
		if r.ExpireAt != 0 {
			b = append(b, gen.OpExpireMs)
			b = binary.LittleEndian.AppendUint64(b, r.ExpireAt)
		}
		b = append(b, r.Type)
		b = gen.AppendRawString(b, r.Key)
		b = append(b, r.ValBytes...)
	}
	b = append(b, gen.OpEOF)
	f := &gen.File{Version: 9, Records: records, Labels: map[string]bool{}}
	f.Bytes = appendCRC(b)
	return f
}

func TestC17Regress(t *testing.T) {
	defer quietLog()()
	// fixed: an infinite score made the JSON encoder fail -> abort
	zv := gen.Value{Kind: "zset", ZSet: []gen.ZE{{Member: []byte("m"), Score: math.Inf(1)}}}
	val := append(gen.AppendLen(nil, 1, 0), gen.AppendRawString(nil, []byte("m"))...)
	val = append(val, 254)
	f := handFile([]gen.Record{{DB: 0, Key: []byte("z"), Type: gen.TZSet, ValBytes: val, Logical: &zv, Label: "zset/skiplist-text"}})
	c17Check(t, f, 1) // fixed finding: must pass
	// fixed D12: a hash beyond the 16 MiB chunk limit reaches the decoder in pieces; each piece must be decoded as such
	hv := gen.Value{Kind: "hash"}
	hval := gen.AppendLen(nil, 18, 0)
	for i := 0; i < 18; i++ {
		fld, v := []byte(fmt.Sprintf("f%02d", i)), patBytes(uint32(i), 1<<20)
		hv.Hash = append(hv.Hash, gen.HE{Field: fld, Value: v})
		hval = gen.AppendRawString(hval, fld)
		hval = append(hval, 0x80, 0, 0x10, 0, 0)
		hval = append(hval, v...)
	}
	bf := handFile([]gen.Record{{DB: 0, Key: []byte("bighash"), Type: gen.THash, ValBytes: hval, Logical: &hv, Label: "hash/chunked"}})
	c17Check(t, bf, 2)
	c17Check(t, bf, 1)
	// a file larger than the 32 MiB read buffer the tool puts in front of it: a value straddles the buffer boundary
	{
		hv := gen.Value{Kind: "hash"}
		hval := gen.AppendLen(nil, 34, 0)
		for i := 0; i < 34; i++ {
			fld, v := []byte(fmt.Sprintf("g%02d", i)), patBytes(uint32(100+i), 1<<20)
			hv.Hash = append(hv.Hash, gen.HE{Field: fld, Value: v})
			hval = gen.AppendRawString(hval, fld)
			hval = append(hval, 0x80, 0, 0x10, 0, 0)
			hval = append(hval, v...)
		}
		c17Check(t, handFile([]gen.Record{{DB: 0, Key: []byte("hash34"), Type: gen.THash, ValBytes: hval, Logical: &hv, Label: "hash/chunked"}}), 2)
	}
	// fixed: the lines of the later chunks carried expireat 0 instead of the key's expiry
	bf = handFile([]gen.Record{{DB: 0, Key: []byte("bighash"), Type: gen.THash, ValBytes: hval, Logical: &hv, Label: "hash/chunked", ExpireAt: 4102444800000}})
	c17Check(t, bf, 2)
}
