#!/usr/bin/env python3
"""Regenerates MANIFEST.json from checkconf.py (claimed properties) and properties.jsonl."""
import json, os, subprocess, sys
sys.path.insert(0, os.path.dirname(os.path.abspath(__file__)))
from checkconf import PROPS, HOOK_COMMITS, NOT_CLAIMED

GOENV = "GOFLAGS=-mod=mod GOPROXY=off GOSUMDB=off GOTOOLCHAIN=local"
ids = [json.loads(l)["id"] for l in open("properties.jsonl")]
checks = []
for pid in ids:
    if pid not in PROPS:
        continue
    c = PROPS[pid]
    checks.append({
        "property_id": pid,
        "quick_cmd": "./check %s --tier quick" % pid,
        "thorough_cmd": "./check %s --tier thorough" % pid,
        "evidence_file": "/verif/evidence/%s.json" % pid,
        "replay_cmd_template": "./check %s --replay {path}" % pid,
        "engine": "harness",
        "level_claimed": {
            "category": "exploration",
            "text": c["level_text"],
            "design_ref": "DESIGN.md section 5, %s" % pid,
        },
        "level_note": c["level_note"],
        "technique": c["technique"],
    })
na = [{"property_id": pid, "reason": NOT_CLAIMED.get(pid, "check not built yet (work in progress); see DESIGN.md section 5")}
      for pid in ids if pid not in PROPS]
m = {
    "version": 1,
    "setup_cmd": "cd /verif/harness && %s go test -c -tags verif -vet=off -o /dev/null ./props" % GOENV,
    "hooks": {
        "guard": "verif",
        "enable": "go build tag: the harness module (replace github.com/alibaba/RedisShake => /repo/src) is compiled with -tags verif, which adds the verif_export.go files",
        "baseline_off_cmd": "cd /repo/src && %s go test -json -vet=off -count=1 -timeout 25m ./..." % GOENV,
        "source_commits": HOOK_COMMITS,
        "add_only": True,
    },
    "engines": [{"name": "harness", "path": "/verif/harness", "serves_properties": [c["property_id"] for c in checks],
                 "kind_free_text": "Go module: pgregory.net/rapid v1.3.0 properties + native go fuzz targets over /repo/src (replace directive), driven by /verif/check"}],
    "checks": checks,
    "not_applicable": na,
    "notes": "All checks are property-based tests / fuzz targets with explicit oracles; known findings in /verif/known_findings.txt; seeded mutants in /verif/seeded; see DESIGN.md.",
}
json.dump(m, open("MANIFEST.json", "w"), indent=1)
print("claimed:", [c["property_id"] for c in checks])
