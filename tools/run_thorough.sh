#!/bin/bash
# runs every thorough check in sequence (each uses all cores); one summary line per property
cd "$(dirname "$0")/.."
for p in ${@:-C01 C02 C03 C04 C05 C06 C07 C08 C09 C10 C11 C12 C13 C14 C15 C16 C17 C18 C19 C20}; do
  t0=$(date +%s)
  out=$(VERIF_NOEVIDENCE=${VERIF_NOEVIDENCE:-} ./check $p --tier thorough 2>&1); rc=$?
  echo "$p rc=$rc $(( $(date +%s) - t0 ))s $(echo "$out" | grep -E '^\[check\]|VIOLATION|KNOWN-FINDING' | tr '\n' ' ' | cut -c1-400)"
  if [ $rc -ne 0 ]; then echo "$out" | tail -40; fi
done
