//go:build verif

package props

import (
	"bufio"
	"bytes"
	"fmt"
	"strings"
	"testing"

	"github.com/alibaba/RedisShake/pkg/redis"
	"pgregory.net/rapid"

	"verif/harness/gen"
	"verif/harness/logcap"
	"verif/harness/stats"
)

// toResp converts the harness tree into the tool's Resp value.
func toResp(v gen.RV) redis.Resp {
	switch v.Kind {
	case '+':
		return &redis.String{Value: v.S}
	case '-':
		return &redis.Error{Value: v.S}
	case ':':
		return &redis.Int{Value: v.I}
	case '$':
		if v.IsNil {
			return &redis.BulkBytes{Value: nil}
		}
		if v.S == nil {
			return &redis.BulkBytes{Value: []byte{}}
		}
		return &redis.BulkBytes{Value: v.S}
	default:
		if v.IsNil {
			return &redis.Array{Value: nil}
		}
		a := &redis.Array{Value: make([]redis.Resp, 0, len(v.Arr))}
		for _, e := range v.Arr {
			a.Value = append(a.Value, toResp(e))
		}
		return a
	}
}

// sameResp compares a decoded value with the expected tree (nil vs empty kept).
func sameResp(v gen.RV, r redis.Resp) string {
	switch v.Kind {
	case '+':
		x, ok := r.(*redis.String)
		if !ok || !bytes.Equal(x.Value, v.S) {
			return fmt.Sprintf("want %v got %#v", v, r)
		}
	case '-':
		x, ok := r.(*redis.Error)
		if !ok || !bytes.Equal(x.Value, v.S) {
			return fmt.Sprintf("want %v got %#v", v, r)
		}
	case ':':
		x, ok := r.(*redis.Int)
		if !ok || x.Value != v.I {
			return fmt.Sprintf("want %v got %#v", v, r)
		}
	case '$':
		x, ok := r.(*redis.BulkBytes)
		if !ok {
			return fmt.Sprintf("want %v got %#v", v, r)
		}
		if v.IsNil != (x.Value == nil) {
			return fmt.Sprintf("nil/empty bulk confusion: want %v got %#v", v, x.Value)
		}
		if !bytes.Equal(x.Value, v.S) {
			return fmt.Sprintf("want %v got %q", v, x.Value)
		}
	case '*':
		x, ok := r.(*redis.Array)
		if !ok {
			return fmt.Sprintf("want %v got %#v", v, r)
		}
		if v.IsNil != (x.Value == nil) {
			return fmt.Sprintf("nil/empty array confusion: want %v got %#v", v, x.Value)
		}
		if len(x.Value) != len(v.Arr) {
			return fmt.Sprintf("array len want %d got %d", len(v.Arr), len(x.Value))
		}
		for i := range v.Arr {
			if d := sameResp(v.Arr[i], x.Value[i]); d != "" {
				return fmt.Sprintf("[%d]: %s", i, d)
			}
		}
	}
	return ""
}

// c10RoundTrip: Encode/Decode identity, and the tool's encoding equals the reference encoding.
// c10SharedBacking: the arguments of a command are adjacent pieces of one buffer (as they are after an inline command
// has been split, or when a caller slices one read buffer): encoding the command neither changes them nor mixes them up.
func c10SharedBacking(t *rapid.T) {
	n := rapid.IntRange(2, 6).Draw(t, "nargs")
	var whole []byte
	var lens []int
	for i := 0; i < n; i++ {
		a := rapid.SliceOfN(rapid.Byte(), 0, 12).Draw(t, "arg")
		whole = append(whole, a...)
		lens = append(lens, len(a))
	}
	backing := make([]byte, len(whole), len(whole)+64) // spare capacity behind every piece
	copy(backing, whole)
	args := make([]redis.Resp, n)
	var want bytes.Buffer
	fmt.Fprintf(&want, "*%d\r\n", n)
	pos := 0
	for i, l := range lens {
		args[i] = redis.NewBulkBytes(backing[pos : pos+l])
		fmt.Fprintf(&want, "$%d\r\n%s\r\n", l, whole[pos:pos+l])
		pos += l
	}
	arr := redis.NewArray()
	arr.Value = append(arr.Value, args...)
	got, err := redis.EncodeToBytes(arr)
	if err != nil {
		t.Fatalf("encode: %v", err)
	}
	if !bytes.Equal(got, want.Bytes()) {
		violation(t, "C10", "encode-differs:shared-backing", "a command whose %d arguments are adjacent pieces of one buffer encodes to %q, reference %q", n, got, want.Bytes())
		return
	}
	if !bytes.Equal(backing, whole) {
		violation(t, "C10", "encode-modifies-input", "encoding changed the caller's argument bytes: %q -> %q", whole, backing)
		return
	}
	stats.C.Case(true, stats.Hash(whole, []byte{byte(n)}), "shared-backing")
}

// c10Retained: the bytes returned for one value stay what they are while further values are encoded (callers queue
// encoded commands before they are written).
func c10Retained(t *rapid.T) {
	n := rapid.IntRange(2, 40).Draw(t, "values")
	var kept, want [][]byte
	for i := 0; i < n; i++ {
		v := gen.RespValue(3).Draw(t, "v")
		var b []byte
		var err error
		if rapid.Bool().Draw(t, "must") {
			b = redis.MustEncodeToBytes(toResp(v))
		} else if b, err = redis.EncodeToBytes(toResp(v)); err != nil {
			t.Fatalf("encode: %v", err)
		}
		kept, want = append(kept, b), append(want, append([]byte{}, v.Bytes()...))
	}
	for i := range kept {
		if !bytes.Equal(kept[i], want[i]) {
			violation(t, "C10", "encoding-overwritten", "the encoding of value %d of %d, kept while the later ones were encoded, now reads %q; it was %q", i+1, n, kept[i], want[i])
			return
		}
	}
	stats.C.Case(true, stats.Hash(bytes.Join(want, nil)), "retained")
}

func c10RoundTrip(t *rapid.T) {
	v := gen.RespValue(4).Draw(t, "v")
	want := v.Bytes()
	got, err := redis.EncodeToBytes(toResp(v))
	if err != nil {
		t.Fatalf("encode %v: %v", v, err)
	}
	if !bytes.Equal(got, want) {
		violation(t, "C10", "encode-differs", "encoding of %v = %q, reference %q", v, got, want)
		return
	}
	trailer := gen.Binary(8).Draw(t, "trailer")
	stream := append(append([]byte{}, got...), trailer...)
	br := bufio.NewReaderSize(&gen.ChunkReader{Data: stream, Sizes: gen.ChunkSizes().Draw(t, "chunks")}, rapid.SampledFrom([]int{16, 17, 64, 4096}).Draw(t, "bufsz"))
	dec := redis.NewDecoder(br)
	var r redis.Resp
	var off int64
	res := logcap.Run(func() { r, off = redis.MustDecodeOpt(dec) })
	if !res.Completed {
		violation(t, "C10", "roundtrip-abort", "decode of encoding of %v: %v", v, res)
		return
	}
	if d := sameResp(v, r); d != "" {
		violation(t, "C10", "roundtrip-value", "decode(encode(v)) != v: %s", d)
		return
	}
	if off != int64(len(got)) {
		violation(t, "C10", "roundtrip-offset", "offset %d after a value of %d bytes (%v)", off, len(got), v)
		return
	}
	// rest of the stream untouched
	rest := make([]byte, 0, len(trailer))
	buf := make([]byte, 64)
	for {
		n, err := br.Read(buf)
		rest = append(rest, buf[:n]...)
		if err != nil {
			break
		}
	}
	if !bytes.Equal(rest, trailer) {
		violation(t, "C10", "roundtrip-rest", "bytes after the value: got %q want %q", rest, trailer)
		return
	}
	stats.C.Case(v.Depth() >= 1 && len(got) > 8, stats.Hash(got), "roundtrip")
	if v.Depth() >= 2 {
		stats.C.Sample("roundtrip " + v.String())
	}
}

type streamItem struct {
	kind   string // "value" | "inline"
	v      gen.RV
	words  [][]byte
	raw    []byte
	before int // keep-alive newlines before it
}

func inlineWord() *rapid.Generator[[]byte] {
	return rapid.Custom(func(t *rapid.T) []byte {
		n := rapid.IntRange(1, 8).Draw(t, "wn")
		b := make([]byte, n)
		for i := range b {
			c := rapid.Byte().Draw(t, "wc")
			if c == ' ' || c == '\r' || c == '\n' {
				c = 'w'
			}
			b[i] = c
		}
		return b
	})
}

// c10Stream: a stream of values, inline commands and keep-alives decodes in order with exact positions.
func c10Stream(t *rapid.T) {
	n := rapid.IntRange(1, 8).Draw(t, "n")
	var stream bytes.Buffer
	items := make([]streamItem, 0, n)
	ends := make([]int, 0, n)
	keepalives, nested, inlines := 0, 0, 0
	for i := 0; i < n; i++ {
		var it streamItem
		it.before = rapid.SampledFrom([]int{0, 0, 0, 1, 2, 5}).Draw(t, "ka")
		keepalives += it.before
		stream.Write(bytes.Repeat([]byte{'\n'}, it.before))
		if rapid.IntRange(0, 4).Draw(t, "inline?") == 0 {
			it.kind = "inline"
			wn := rapid.IntRange(1, 4).Draw(t, "words")
			var line bytes.Buffer
			for w := 0; w < wn; w++ {
				word := inlineWord().Draw(t, "word")
				if w == 0 {
					// an inline line cannot start with a RESP type byte
					switch word[0] {
					case '+', '-', ':', '$', '*':
						word[0] = 'c'
					}
				}
				it.words = append(it.words, word)
				if w > 0 {
					line.Write(bytes.Repeat([]byte{' '}, rapid.IntRange(1, 3).Draw(t, "sp")))
				}
				line.Write(word)
			}
			line.Write(bytes.Repeat([]byte{' '}, rapid.IntRange(0, 2).Draw(t, "tsp")))
			line.WriteString("\r\n")
			it.raw = line.Bytes()
			inlines++
		} else {
			it.kind = "value"
			it.v = gen.RespValue(3).Draw(t, "v")
			it.raw = it.v.Bytes()
			if it.v.Depth() >= 2 {
				nested++
			}
		}
		stream.Write(it.raw)
		ends = append(ends, stream.Len())
		items = append(items, it)
	}
	tailKA := rapid.IntRange(0, 2).Draw(t, "tailka")
	stream.Write(bytes.Repeat([]byte{'\n'}, tailKA))
	data := stream.Bytes()
	cr := &gen.ChunkReader{Data: data, Sizes: gen.ChunkSizes().Draw(t, "chunks")}
	br := bufio.NewReaderSize(cr, rapid.SampledFrom([]int{16, 32, 100, 4096}).Draw(t, "bufsz"))
	dec := redis.NewDecoder(br)
	for i, it := range items {
		var r redis.Resp
		var off int64
		res := logcap.Run(func() { r, off = redis.MustDecodeOpt(dec) })
		if !res.Completed {
			violation(t, "C10", "stream-abort", "item %d of stream %q: %v", i, data, res)
			return
		}
		if it.kind == "value" {
			if d := sameResp(it.v, r); d != "" {
				violation(t, "C10", "stream-value", "item %d of stream %q: %s", i, data, d)
				return
			}
		} else {
			a, ok := r.(*redis.Array)
			if !ok || len(a.Value) != len(it.words) {
				violation(t, "C10", "inline-value", "inline %q decoded to %#v", it.raw, r)
				return
			}
			for k, w := range it.words {
				b, ok := a.Value[k].(*redis.BulkBytes)
				if !ok || !bytes.Equal(b.Value, w) {
					violation(t, "C10", "inline-value", "inline %q word %d decoded to %#v", it.raw, k, a.Value[k])
					return
				}
			}
		}
		consumed := cr.Pos - br.Buffered()
		if consumed != ends[i] {
			violation(t, "C10", "stream-consumed", "after item %d consumed %d bytes from the stream, value ends at %d (stream %q)", i, consumed, ends[i], data)
			return
		}
		if off != int64(ends[i]) {
			sig := "stream-offset"
			if inlinesBefore(items, i) > 0 {
				sig = "inline-offset"
			}
			if violation(t, "C10", sig, "decoder position %d after item %d, but %d stream bytes were consumed (stream %q)", off, i, ends[i], data) {
				return
			}
		}
	}
	nt := len(items) >= 3 && keepalives >= 1 && nested >= 1
	cls := []string{"stream"}
	if inlines > 0 {
		cls = append(cls, "stream-with-inline")
	}
	if keepalives > 0 {
		cls = append(cls, "stream-with-keepalive")
	}
	stats.C.Case(nt, stats.Hash(data), cls...)
	if nt {
		stats.C.Sample(fmt.Sprintf("stream %q", data))
	}
}

func inlinesBefore(items []streamItem, i int) int {
	n := 0
	for k := 0; k <= i; k++ {
		if items[k].kind == "inline" {
			n++
		}
	}
	return n
}

func mustErr(t *rapid.T, what string, data []byte) bool {
	var r redis.Resp
	var err error
	res := logcap.Run(func() { r, err = redis.DecodeFromBytes(data) })
	if !res.Completed {
		return violation(t, "C10", "malformed-crash", "%s %q: %v", what, data, res)
	}
	if err == nil {
		return violation(t, "C10", "malformed-accepted:"+strings.Fields(what)[0], "%s %q decoded to a value %#v", what, data, r)
	}
	return false
}

// c10Malformed: constructed corruptions and all truncations are rejected.
func c10Malformed(t *rapid.T) {
	v := gen.RespValue(3).Draw(t, "v")
	enc := v.Bytes()
	count := 0
	// every proper prefix
	for i := 0; i < len(enc); i++ {
		if mustErr(t, "truncation", enc[:i]) {
			return
		}
		count++
	}
	// terminator corruptions: find structural CRLF positions by re-walking the reference encoding
	for _, pos := range structuralCRLF(v) {
		for _, which := range []int{0, 1} {
			// A replaced LF in the middle of an artefact merely joins two lines into another
			// well-formed stream; only the LF of a bulk payload terminator (checked by position)
			// and the final LF of the artefact make the input malformed.
			if which == 1 && !pos.lfExact && pos.off+2 != len(enc) {
				continue
			}
			c := rapid.Byte().Draw(t, "repl")
			orig := enc[pos.off+which]
			if c == orig {
				c ^= 0x55
			}
			if which == 1 && c == '\n' {
				c = 'n'
			}
			if which == 0 && c == '\r' {
				c = 'r'
			}
			m := append([]byte{}, enc...)
			m[pos.off+which] = c
			if mustErr(t, "terminator-corrupted", m) {
				return
			}
			count++
		}
	}
	// bad lengths
	for _, k := range []byte{'$', '*'} {
		neg := rapid.IntRange(-9, -2).Draw(t, "neg")
		if mustErr(t, "length-below-minus-one", []byte(fmt.Sprintf("%c%d\r\n", k, neg))) {
			return
		}
		nn := rapid.SampledFrom([]string{"", "a", "1x", "x1", "1 ", " 1", "0x10", "1e3", "--1", "1.0", "\x00"}).Draw(t, "nonnum")
		if mustErr(t, "non-numeric-length", []byte(fmt.Sprintf("%c%s\r\nab\r\n", k, nn))) {
			return
		}
		count += 2
	}
	// numbers in another base or with digit separators, followed by a payload that matches the value they would have
	for _, m := range []string{"$0x2\r\nab\r\n", "$0X2\r\nab\r\n", "$0b10\r\nab\r\n", "$0o2\r\nab\r\n", "$0_2\r\nab\r\n", "*0x1\r\n:1\r\n", "*0b1\r\n+a\r\n", ":0x10\r\n", ":1_0\r\n", ":0b1\r\n", ":0o17\r\n"} {
		if mustErr(t, "non-decimal-number", []byte(m)) {
			return
		}
		count++
	}
	// a one-character number that is no digit, followed by what its "value" (c-'0', as a byte) would announce
	{
		c := rapid.Byte().Filter(func(b byte) bool { return (b < '0' || b > '9') && b != '\r' && b != '\n' }).Draw(t, "nondigit")
		v := int(byte(c - '0'))
		for _, m := range [][]byte{
			[]byte(fmt.Sprintf(":%c\r\n", c)),
			append(append([]byte(fmt.Sprintf("$%c\r\n", c)), bytes.Repeat([]byte("p"), v)...), '\r', '\n'),
			append([]byte(fmt.Sprintf("*%c\r\n", c)), bytes.Repeat([]byte(":1\r\n"), v)...),
		} {
			if mustErr(t, "non-digit-number", m) {
				return
			}
			count++
		}
	}
	// a stray CR in front of the line terminator of a number / length line
	for _, m := range []string{":5\r\r\n", "$3\r\r\nfoo\r\n", "*1\r\r\n:1\r\n", ":-7\r\r\r\n", "$0\r\r\n\r\n"} {
		if mustErr(t, "number-line-with-stray-cr", []byte(m)) {
			return
		}
		count++
	}
	// unknown type byte inside an array
	tb := rapid.Byte().Draw(t, "tb")
	switch tb {
	case '+', '-', ':', '$', '*', '\n':
		tb = '!'
	}
	inner := append([]byte{tb}, []byte("abc\r\n")...)
	if mustErr(t, "unknown-type-in-array", append([]byte("*1\r\n"), inner...)) {
		return
	}
	if mustErr(t, "unknown-type-in-array", append(append([]byte("*2\r\n"), v.Bytes()...), inner...)) {
		return
	}
	count += 2
	stats.C.Count("malformed_artefacts", int64(count))
	stats.C.Case(len(enc) >= 6, stats.Hash(enc), "malformed")
}

// structuralCRLF returns offsets of every CR LF pair that terminates a header, a line or a bulk payload.
type crlfPos struct {
	off     int
	lfExact bool // the decoder checks this LF by position (bulk payload terminator)
}

func structuralCRLF(v gen.RV) []crlfPos {
	var out []crlfPos
	var b bytes.Buffer
	var walk func(v gen.RV)
	walk = func(v gen.RV) {
		switch v.Kind {
		case '+', '-', ':':
			v.Encode(&b)
			out = append(out, crlfPos{b.Len() - 2, false})
		case '$':
			if v.IsNil {
				v.Encode(&b)
				out = append(out, crlfPos{b.Len() - 2, false})
				return
			}
			fmt.Fprintf(&b, "$%d\r\n", len(v.S))
			out = append(out, crlfPos{b.Len() - 2, false})
			b.Write(v.S)
			b.WriteString("\r\n")
			out = append(out, crlfPos{b.Len() - 2, true})
		case '*':
			if v.IsNil {
				v.Encode(&b)
				out = append(out, crlfPos{b.Len() - 2, false})
				return
			}
			fmt.Fprintf(&b, "*%d\r\n", len(v.Arr))
			out = append(out, crlfPos{b.Len() - 2, false})
			for _, e := range v.Arr {
				walk(e)
			}
		}
	}
	walk(v)
	return out
}

// c10Args: command construction / extraction round trip.
func c10Args(t *rapid.T) {
	cmd := rapid.StringMatching(`[A-Za-z][A-Za-z-]{0,9}`).Draw(t, "cmd")
	n := rapid.IntRange(0, 5).Draw(t, "n")
	args := make([][]byte, n)
	iargs := make([]interface{}, n)
	for i := range args {
		args[i] = gen.Binary(20).Draw(t, "arg")
		if args[i] == nil {
			args[i] = []byte{}
		}
		if rapid.Bool().Draw(t, "asString") {
			iargs[i] = string(args[i])
		} else {
			iargs[i] = args[i]
		}
	}
	for _, r := range []redis.Resp{redis.NewCommand(cmd, iargs...), redis.ChangeArgsToResp([]byte(cmd), args)} {
		enc, err := redis.EncodeToBytes(r)
		if err != nil {
			t.Fatalf("encode command: %v", err)
		}
		dr, err := redis.DecodeFromBytes(enc)
		if err != nil {
			violation(t, "C10", "args-decode", "command %q %q: %v", cmd, args, err)
			return
		}
		c2, a2, err := redis.ParseArgs(dr)
		if err != nil || c2 != strings.ToLower(cmd) || len(a2) != len(args) {
			violation(t, "C10", "args-roundtrip", "command %q %q parsed back as %q %q err=%v", cmd, args, c2, a2, err)
			return
		}
		for i := range args {
			if !bytes.Equal(a2[i], args[i]) {
				violation(t, "C10", "args-roundtrip", "command %q arg %d: %q became %q", cmd, i, args[i], a2[i])
				return
			}
		}
	}
	stats.C.Case(n >= 2, stats.Hash(append([]byte(cmd), bytes.Join(args, []byte{0})...)), "args")
}

func TestC10(t *testing.T) {
	t.Run("roundtrip", func(t *testing.T) { rapid.Check(t, c10RoundTrip) })
	t.Run("stream", func(t *testing.T) { rapid.Check(t, c10Stream) })
	t.Run("malformed", func(t *testing.T) { rapid.Check(t, c10Malformed) })
	t.Run("args", func(t *testing.T) { rapid.Check(t, c10Args) })
	t.Run("shared", func(t *testing.T) { rapid.Check(t, c10SharedBacking) })
	t.Run("retained", func(t *testing.T) { rapid.Check(t, c10Retained) })
}

// Integer table boundaries, exhaustively around the pre-rendered range.
func TestC10Regress(t *testing.T) {
	for i := int64(-1100); i <= 525400; i++ {
		want := fmt.Sprintf(":%d\r\n", i)
		got, err := redis.EncodeToBytes(&redis.Int{Value: i})
		if err != nil || string(got) != want {
			t.Fatalf("property C10 violated [sig=int-table]: Int %d encodes to %q", i, got)
		}
	}
	stats.C.Count("int_table_values_checked", 525400+1100+1)
}
