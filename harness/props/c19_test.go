//go:build verif

package props

import (
	"encoding/json"
	"expvar"
	"fmt"
	"strings"
	"sync"
	"testing"
	"time"

	rlog "github.com/alibaba/RedisShake/pkg/libs/log"
	"github.com/alibaba/RedisShake/redis-shake/checkpoint"
	utils "github.com/alibaba/RedisShake/redis-shake/common"
	conf "github.com/alibaba/RedisShake/redis-shake/configure"
	"github.com/alibaba/RedisShake/redis-shake/dbSync/redisConnWrapper"
	"github.com/alibaba/RedisShake/redis-shake/metric"
	"pgregory.net/rapid"

	"verif/harness/fsrc"
	"verif/harness/logcap"
	"verif/harness/mredis"
	"verif/harness/netx"
	"verif/harness/stats"
)

// c19SafeOptions: the masked copy of the options never carries a configured password.
func c19SafeOptions(t *rapid.T) {
	pw := func(l string) string {
		if rapid.IntRange(0, 3).Draw(t, l+"empty") == 0 {
			return ""
		}
		return rapid.StringMatching(`[A-Za-z0-9_!@#-]{6,24}`).Draw(t, l)
	}
	o := &conf.Options
	saved := *o
	defer func() { *o = saved }()
	o.SourcePasswordRaw, o.SourcePasswordEncoding = pw("srcRaw"), pw("srcEnc")
	o.TargetPasswordRaw, o.TargetPasswordEncoding = pw("tgtRaw"), pw("tgtEnc")
	o.SourceAddress, o.TargetAddress = "10.0.0.1:6379", "10.0.0.2:6379"
	safe := conf.GetSafeOptions()
	docs := map[string]string{}
	b, _ := json.Marshal(safe)
	docs["json"] = string(b)
	docs["%+v"] = fmt.Sprintf("%+v", safe)
	docs["%v"] = fmt.Sprintf("%v", safe)
	n := 0
	for name, p := range map[string]string{"source.password_raw": o.SourcePasswordRaw, "source.password_encoding": o.SourcePasswordEncoding, "target.password_raw": o.TargetPasswordRaw, "target.password_encoding": o.TargetPasswordEncoding} {
		if p == "" {
			continue
		}
		n++
		for kind, d := range docs {
			if strings.Contains(d, p) {
				violation(t, "C19", "safe-options-leak:"+name, "GetSafeOptions() rendered as %s contains %s (%q); passwords configured: %q %q %q %q", kind, name, p, o.SourcePasswordRaw, o.SourcePasswordEncoding, o.TargetPasswordRaw, o.TargetPasswordEncoding)
				return
			}
		}
	}
	if rapid.IntRange(0, 29).Draw(t, "concurrentReaders") == 17 {
		// several readers of the masked options at once (parallel /conf requests, /conf during the start-up echo)
		var wg sync.WaitGroup
		leak := make(chan string, 8)
		for g := 0; g < 4; g++ {
			wg.Add(1)
			go func() {
				defer wg.Done()
				for i := 0; i < 1500; i++ {
					sp := conf.GetSafeOptions()
					for name, p := range map[string]string{"source.password_raw": o.SourcePasswordRaw, "source.password_encoding": o.SourcePasswordEncoding, "target.password_raw": o.TargetPasswordRaw, "target.password_encoding": o.TargetPasswordEncoding} {
						if p != "" && (sp.SourcePasswordRaw == p || sp.SourcePasswordEncoding == p || sp.TargetPasswordRaw == p || sp.TargetPasswordEncoding == p) {
							select {
							case leak <- name:
							default:
							}
							return
						}
					}
				}
			}()
		}
		wg.Wait()
		select {
		case name := <-leak:
			violation(t, "C19", "safe-options-leak:concurrent:"+name, "GetSafeOptions() called from 4 goroutines at once returned a copy that still holds %s", name)
			return
		default:
		}
	}
	if safe.SourcePasswordRaw == o.SourcePasswordRaw && o.SourcePasswordRaw != "" || safe.TargetPasswordRaw == o.TargetPasswordRaw && o.TargetPasswordRaw != "" {
		violation(t, "C19", "safe-options-unmasked", "password fields are not masked: %+v", safe)
		return
	}
	stats.C.Case(n >= 2, stats.HashS(fmt.Sprint(o.SourcePasswordRaw, "|", o.SourcePasswordEncoding, "|", o.TargetPasswordRaw, "|", o.TargetPasswordEncoding)), "safe-options")
}

type c19Runner struct{ info []map[string]interface{} }

func (r c19Runner) Main()                        {}
func (r c19Runner) GetDetailedInfo() interface{} { return r.info }

// leakCheck fails the case when anything printed or served since the last call contains a password sentinel.
func leakCheck(t fataler, path string) bool {
	leaks := logcap.Cap.TakeLeaks()
	if len(leaks) == 0 {
		return false
	}
	what := leaks[0]
	sig := "leak:" + path
	if strings.Contains(what, "Starting sync for node") {
		sig = "leak:sync-start:SyncNode-formatted-with-%v"
	}
	return violation(t, "C19", sig, "a configured password appears in the output of path %q (%d records), e.g.: %s", path, len(leaks), what)
}

var c19Paths = []string{"restore-entry", "full-sync", "incremental", "resume-cuts", "checkpoint-load", "rump", "supervisor", "syncer-topology", "handshake", "reconnect-refused", "sync-end-to-end", "status-documents", "auth-type-unknown", "cluster-discovery", "supervisor-retry", "cluster-connect-failure", "dump-slow-source", "probe-connection"}

// c19Path runs one of the tool's run paths (the other properties' drivers, with the sentinel
// passwords configured everywhere and the log at a generated level) and scans what was printed.
func c19Path(t *rapid.T) { c19RunPath(t, rapid.SampledFrom(c19Paths).Draw(t, "path")) }

func c19RunPath(t *rapid.T, path string) {
	// the most verbose level shows every statement the lower ones show: it gets most of the weight
	level := rapid.SampledFrom([]rlog.LogLevel{rlog.LEVEL_NONE, rlog.LEVEL_ERROR, rlog.LEVEL_WARN, rlog.LEVEL_INFO, rlog.LEVEL_INFO, rlog.LEVEL_DEBUG, rlog.LEVEL_DEBUG, rlog.LEVEL_DEBUG, rlog.LEVEL_DEBUG}).Draw(t, "level")
	logcap.Cap.TakeLeaks()
	before, _ := logcap.Cap.Stats()
	rlog.SetLevel(level)
	defer rlog.SetLevel(rlog.LEVEL_ALL)
	keepLevel = true
	defer func() { keepLevel = false }()
	// a path that fails on its own property (or panics) may still have printed a password: look before the failure propagates
	finished := false
	defer func() {
		if !finished {
			leakCheck(t, path)
		}
	}()
	switch path {
	case "restore-entry":
		for i := 0; i < 5; i++ {
			c02Check(t, drawC02(t))
		}
	case "full-sync":
		c07Check(t, drawC07(t))
	case "incremental":
		c := drawIncrConf(t, rapid.Bool().Draw(t, "resume"))
		c.apply()
		sc := drawC03Script(t, c, false)
		o := runIncrScript(c, sc)
		resetIncrConf()
		if o.sig != "" {
			t.Fatalf("harness: path run failed on its own property: %s %s", o.sig, o.msg)
		}
	case "resume-cuts":
		c := drawIncrConf(t, true)
		c.apply()
		sc := c03Script{startDB: -1, st: drawStream(t, streamOpts{maxCmds: 12, startSelect: true, dbs: []int{0, 1, 2}, noCkKeys: true})}
		o := runC04Script(c, sc, 1000, []int{3, 7})
		resetIncrConf()
		if o.sig != "" {
			t.Fatalf("harness: path run failed on its own property: %s %s", o.sig, o.msg)
		}
	case "checkpoint-load":
		c14Check(t, drawC14(t))
	case "rump":
		c := rumpConf{targetDB: -1, keyNumber: 3, threshold: 40, policy: "rewrite"}
		c.apply()
		s := drawRumpScript(t, c, 0)
		o := runRump(c, s, 0)
		resetRumpConf()
		if o.sig != "" {
			t.Fatalf("harness: path run failed on its own property: %s %s", o.sig, o.msg)
		}
	case "supervisor":
		s := drawShard(t, 0)
		for n := range s.plan { // keep it short: a master is present from the first attempt
			s.plan[n][0] = nbSlave
		}
		s.plan[s.nodes[len(s.nodes)-1]][0] = nbMaster
		runShard(s)
	case "supervisor-retry":
		// the first discovery round finds no master: the supervisor waits (6 s) and retries
		sh := drawShard(t, 0)
		for n := range sh.plan {
			sh.plan[n][0] = nbSlave
			for a := 1; a < len(sh.plan[n]); a++ {
				sh.plan[n][a] = nbSlave
			}
		}
		sh.plan[sh.nodes[len(sh.nodes)-1]][1] = nbMaster
		runShard(sh)
	case "dump-slow-source":
		// dump mode against a source that needs more than a second before it announces the RDB (the progress line is printed)
		c05ForcePreDelay = 1300 * time.Millisecond
		c05Dump(t)
		c05ForcePreDelay = 0
	case "probe-connection":
		// the connections the slot supervisor probes source nodes with (default factory), to a node that is up and to one
		// that is gone, with passwords that carry characters special to URLs and formats; the supervisor logs the errors
		// it gets back
		suffix := rapid.SampledFrom([]string{"", "%zz", "/x", "%", "@host", ":p", "?q#f", " sp", "%s%v"}).Draw(t, "pwSuffix")
		ln, err := netx.Listen()
		if err != nil {
			t.Fatalf("harness: %v", err)
		}
		dead := ln.Addr().String()
		ln.Close()
		for _, pw := range []string{srcSentinel + suffix, tgtSentinel + suffix} {
			node := mredis.New()
			node.Password = pw
			node.Listen()
			for _, addr := range []string{node.Addr(), dead} {
				logcap.RunTree(func() {
					c, err := redisConnWrapper.DefaultRedisConnFactory(addr, pw, false)
					if err != nil {
						rlog.Errorf("GetSlotState - error while discovering slot topology: %v", err)
						return
					}
					if c != nil {
						if _, err := c.Do("info", "replication"); err != nil {
							rlog.Errorf("GetSlotState - error while discovering slot topology: %v", err)
						}
						c.Close()
					}
				})
			}
			node.Close()
		}
		logcap.Cap.TakeAborts()
	case "cluster-connect-failure":
		// a connection of cluster type whose start node cannot be reached (checkpoint load, workers, rump against a cluster)
		ln, err := netx.Listen()
		if err != nil {
			t.Fatalf("harness: %v", err)
		}
		dead := ln.Addr().String()
		ln.Close()
		for _, pw := range []string{srcSentinel, tgtSentinel} {
			logcap.RunTree(func() {
				if c, err := utils.OpenRedisConn([]string{dead}, "auth", pw, true, false); err == nil && c != nil {
					c.Close()
				} else if err != nil {
					logcap.Cap.Scan("error returned by OpenRedisConn (cluster)", []byte(err.Error()))
				}
			})
		}
		logcap.Cap.TakeAborts()
	case "syncer-topology":
		c20Syncer(t)
	case "handshake":
		c05Full(t)
		c05Dump(t)
	case "reconnect-refused":
		// the source link drops and reconnect attempts are refused for a while before one succeeds
		sc := drawC08Script(t)
		sc.dropAfter, sc.refuse, sc.psyncErr = 0, 1, false
		if o := runC08(sc); o.sig != "" {
			t.Fatalf("harness: path run failed on its own property: %s %s", o.sig, o.msg)
		}
	case "sync-end-to-end":
		// complete Sync() run: checkpoint load, PSYNC with AUTH, full sync, incremental, reconnect
		o := &conf.Options
		o.ResumeFromBreakPoint, o.Parallel, o.KeyExists, o.TargetDB, o.SenderCount, o.SenderSize = true, 1, "none", -1, 1024, 104857600
		id := <-incrSlots
		s := drawE2E(t)
		sig, msg := runE2E(s, id, false)
		time.AfterFunc(5*time.Second, func() { incrSlots <- id })
		o.ResumeFromBreakPoint = false
		resetIncrConf()
		if sig != "" && !strings.HasPrefix(sig, "e2e:abort") {
			t.Fatalf("harness: path run failed on its own property: %s %s", sig, msg)
		}
	case "auth-type-unknown":
		// an auth type the server does not know (e.g. "adminauth" against a stock Redis): the server's error reply
		// echoes the arguments, i.e. the password; whatever the tool does with that reply, it must not print it.
		// The runs are expected to fail; only the output matters.
		authType := rapid.SampledFrom([]string{"adminauth", "AUTHX", "auth2", "auth default", "auth replica-user"}).Draw(t, "authType")
		src := fsrc.New(srcSentinel, fsrc.Plan{Steps: []fsrc.Step{{Send: []byte("-NOAUTH Authentication required.\r\n"), Sleep: 200 * time.Millisecond, Close: true}}})
		src.RequireAuth = true
		ds := newSyncer(0)
		ds.VerifSetResume("", 0, -1, "")
		logcap.RunTree(func() { ds.VerifSendPSyncCmd(src.Addr(), authType, srcSentinel, false, "?") })
		src.Retire(3 * time.Second)
		tgt := mredis.New()
		tgt.Password = tgtSentinel
		tgt.Listen()
		logcap.RunTree(func() {
			checkpoint.LoadCheckpoint(0, "10.0.0.1:6379", []string{tgt.Addr()}, authType, tgtSentinel, "redis-shake-checkpoint", false, false)
		})
		logcap.RunTree(func() {
			if c, err := utils.OpenRedisConn([]string{tgt.Addr()}, authType, tgtSentinel, false, false); err == nil && c != nil {
				c.Do("set", "k", "v")
				c.Close()
			}
		})
		tgt.Close()
		logcap.Cap.TakeAborts()
	case "cluster-discovery":
		// sync start with source.type=cluster asks the first node for its slot table; a node that accepts AUTH but answers
		// CLUSTER SLOTS with an error (standalone instance, LOADING) makes the call fail, and callers log the error they get
		for _, pw := range []string{srcSentinel, tgtSentinel} {
			node := mredis.New()
			node.Password = pw
			node.Listen()
			var err error
			logcap.RunTree(func() { _, err = utils.GetSlotDistribution(node.Addr(), "auth", pw, false) })
			if err != nil {
				logcap.Cap.Scan("error returned by GetSlotDistribution (its callers log it)", []byte(err.Error()))
				logcap.Cap.Scan("error returned by GetSlotDistribution (%+v)", []byte(fmt.Sprintf("%+v", err)))
			}
			node.Close()
		}
		logcap.Cap.TakeAborts()
	case "status-documents":
		// per-syncer status and the REST metric document built from it
		ds := newSyncer(0)
		info := ds.GetExtraInfo()
		b, _ := json.Marshal(info)
		logcap.Cap.Scan("DbSyncer.GetExtraInfo", b)
		conf.Options.Type = conf.TypeSync
		conf.Options.SourceAddressList = []string{"127.0.0.1:1"}
		metric.CreateMetric(c19Runner{info: []map[string]interface{}{info}})
		mb, _ := json.Marshal(metric.NewMetricRest())
		logcap.Cap.Scan("metric.NewMetricRest", mb)
		sb, _ := json.Marshal(conf.GetSafeOptions())
		logcap.Cap.Scan("config echo (GetSafeOptions)", sb)
		// everything published through expvar is served under /debug/vars by the same HTTP server
		expvar.Do(func(kv expvar.KeyValue) {
			if kv.Key != "memstats" {
				logcap.Cap.Scan("expvar "+kv.Key+" (/debug/vars)", []byte(kv.Value.String()))
			}
		})
		logcap.Cap.Scan("config echo %+v", []byte(fmt.Sprintf("%+v", conf.GetSafeOptions())))
	}
	finished = true
	dropLeftoverAborts()
	if leakCheck(t, path) {
		return
	}
	after, _ := logcap.Cap.Stats()
	stats.C.Case(after-before >= 200, stats.HashS(fmt.Sprint(path, level, after-before, time.Now().UnixNano()/1e9)), "path:"+path, fmt.Sprintf("level=%d", level))
	stats.C.Count("bytes_scanned:"+path, after-before)
	if stats.C.NumSamples() < 6 {
		stats.C.Sample(fmt.Sprintf("path %s at log level %d: %d bytes of log/status output scanned for both sentinels", path, level, after-before))
	}
}

var c19mu sync.Mutex

func TestC19(t *testing.T) {
	t.Run("safe-options", func(t *testing.T) { rapid.Check(t, c19SafeOptions) })
	t.Run("node-format", func(t *testing.T) { rapid.Check(t, c19NodeFormat) })
}

func TestC19Paths(t *testing.T) { rapid.Check(t, c19Path) }

// TestC19EachPath: the same runs, stratified: every path gets its own share of cases (a shard takes every n-th path).
func TestC19EachPath(t *testing.T) {
	si, sn := shard()
	for i, p := range c19Paths {
		if i%sn != si {
			continue
		}
		p := p
		// paths that cost milliseconds are repeated inside one case, so that rare input shapes of theirs are reached
		reps := 1
		switch p {
		case "restore-entry", "full-sync", "checkpoint-load", "handshake", "status-documents", "auth-type-unknown", "cluster-discovery", "supervisor", "syncer-topology", "cluster-connect-failure", "probe-connection":
			reps = 6
		}
		t.Run(strings.ReplaceAll(p, "-", "_"), func(t *testing.T) {
			rapid.Check(t, func(t *rapid.T) {
				for i := 0; i < reps; i++ {
					c19RunPath(t, p)
				}
			})
		})
	}
}

func TestC19Regress(t *testing.T) {}
