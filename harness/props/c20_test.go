//go:build verif

package props

import (
	"errors"
	"fmt"
	conf "github.com/alibaba/RedisShake/redis-shake/configure"
	"sort"
	"strings"
	"sync"
	"testing"
	"time"

	"github.com/alibaba/RedisShake/redis-shake/dbSync/redisConnWrapper"
	"github.com/alibaba/RedisShake/redis-shake/dbSync/slot"
	"github.com/alibaba/RedisShake/redis-shake/dbSync/slotsupervisor"
	redigo "github.com/garyburd/redigo/redis"
	"pgregory.net/rapid"

	"verif/harness/logcap"
	"verif/harness/stats"
)

const c20Attempts = 7 // maxRetries 6 => attempts with recursion depth 6..0

type nodeBehaviour string

const (
	nbMaster   nodeBehaviour = "master"
	nbSlave    nodeBehaviour = "slave"
	nbConnErr  nodeBehaviour = "connect-error"
	nbCmdErr   nodeBehaviour = "command-error"
	nbNoRole   nodeBehaviour = "no-role-line"
	nbGarbageM nodeBehaviour = "garbage-then-master"
	nbGarbageS nodeBehaviour = "garbage-then-slave"
)

func (b nodeBehaviour) isMaster() bool { return b == nbMaster || b == nbGarbageM }

type shardScript struct {
	nodes []string                   // nodes[0] is the configured Source
	plan  map[string][]nodeBehaviour // per node, per attempt
}

func (s shardScript) String() string {
	var parts []string
	for _, n := range s.nodes {
		var b []string
		for _, x := range s.plan[n] {
			b = append(b, string(x))
		}
		parts = append(parts, n+":"+strings.Join(b, ","))
	}
	return strings.Join(parts, " | ")
}

func infoFor(b nodeBehaviour) string {
	switch b {
	case nbMaster:
		return "# Replication\r\nrole:master\r\nconnected_slaves:1\r\n"
	case nbSlave:
		return "# Replication\r\nrole:slave\r\nmaster_host:10.0.0.1\r\n"
	case nbNoRole:
		return "# Replication\r\nconnected_slaves:0\r\nxrole:master\r\n"
	case nbGarbageM:
		return "# Replication\r\nfoo:bar role:slave\r\n role:slave\r\nrole:master\r\n"
	case nbGarbageS:
		return "# Replication\r\nmaster_role:master\r\nnot role:master\r\nrole:slave\r\n"
	}
	return ""
}

func drawShard(t *rapid.T, id int) shardScript {
	n := rapid.IntRange(1, 6).Draw(t, "nodes")
	s := shardScript{plan: map[string][]nodeBehaviour{}}
	for i := 0; i < n; i++ {
		s.nodes = append(s.nodes, fmt.Sprintf("10.%d.0.%d:6379", id, i+1))
	}
	shape := rapid.SampledFrom([]string{"one-master", "one-master", "promoted", "late-master", "late-master-early", "no-master", "several-masters", "random"}).Draw(t, "shape")
	masterAt, masterIdx := 0, rapid.IntRange(0, n-1).Draw(t, "masterIdx")
	switch shape {
	case "late-master":
		masterAt = rapid.IntRange(1, c20Attempts-1).Draw(t, "masterAt")
	case "late-master-early":
		masterAt = rapid.IntRange(1, 2).Draw(t, "masterAt")
	case "no-master":
		masterAt = c20Attempts
	}
	for i, node := range s.nodes {
		for a := 0; a < c20Attempts; a++ {
			var b nodeBehaviour
			if shape == "random" {
				b = rapid.SampledFrom([]nodeBehaviour{nbMaster, nbSlave, nbSlave, nbConnErr, nbCmdErr, nbNoRole, nbGarbageM, nbGarbageS}).Draw(t, "b")
			} else {
				b = rapid.SampledFrom([]nodeBehaviour{nbSlave, nbSlave, nbSlave, nbConnErr, nbCmdErr, nbNoRole, nbGarbageS}).Draw(t, "b")
				if a >= masterAt && i == masterIdx {
					b = rapid.SampledFrom([]nodeBehaviour{nbMaster, nbMaster, nbGarbageM}).Draw(t, "mb")
				}
				if shape == "several-masters" && a >= masterAt && rapid.IntRange(0, 2).Draw(t, "alsoMaster") == 0 {
					b = nbMaster
				}
				if shape == "promoted" && i == 0 && n > 1 {
					b = rapid.SampledFrom([]nodeBehaviour{nbConnErr, nbSlave, nbCmdErr}).Draw(t, "old")
					if masterIdx == 0 {
						// the old source is gone; another node is the master
						b = nbConnErr
					}
				}
			}
			s.plan[node] = append(s.plan[node], b)
		}
	}
	if shape == "promoted" && masterIdx == 0 && n > 1 {
		for a := 0; a < c20Attempts; a++ {
			s.plan[s.nodes[1]][a] = nbMaster
		}
	}
	return s
}

type shardResult struct {
	node    *slot.SyncNode
	err     error
	probes  map[string]int
	elapsed time.Duration
	res     logcap.Result
	hung    bool // GetSlotState did not return within the watchdog limit
}

func runShard(s shardScript) shardResult {
	var mu sync.Mutex
	probes := map[string]int{}
	factory := func(host, password string, tls bool) (redigo.Conn, error) {
		mu.Lock()
		a := probes[host]
		probes[host]++
		mu.Unlock()
		if a >= len(s.plan[host]) {
			return nil, errors.New("verif: more probes than the bounded retry allows")
		}
		b := s.plan[host][a]
		if tls != conf.Options.SourceTLSEnable {
			// the source nodes speak the source's transport: a probe over the other one cannot connect
			return nil, errors.New("dial: transport mismatch (probe does not use source.tls_enable)")
		}
		if b == nbConnErr {
			return nil, errors.New("dial tcp: connection refused (injected)")
		}
		return redisConnWrapper.MockRedisConn{Host: host, DoFunc: func(cmd string, args ...interface{}) (interface{}, error) {
			if b == nbCmdErr {
				// error replies as a server sends them, the kind depends on node and attempt only
				texts := []string{"ERR injected command failure", "LOADING Redis is loading the dataset in memory", "NOAUTH Authentication required.",
					"BUSY Redis is busy running a script. You can only call SCRIPT KILL or SHUTDOWN NOSAVE.", "MASTERDOWN Link with MASTER is down and replica-serve-stale-data is set to 'no'."}
				return nil, redigo.Error(texts[(len(host)+int(host[len(host)-1])+a)%len(texts)])
			}
			return []byte(infoFor(b)), nil
		}}, nil
	}
	sn := slot.SyncNode{Id: 0, Source: s.nodes[0], Slaves: append([]string{}, s.nodes[1:]...), SourcePassword: srcSentinel, TargetPassword: tgtSentinel,
		Target: []string{"10.9.9.9:6379"}, SlotLeftBoundary: 0, SlotRightBoundary: 16383}
	var out shardResult
	start := time.Now()
	done := logcap.Start(func() { out.node, out.err = slotsupervisor.VerifNew(sn, factory).GetSlotState() })
	select {
	case out.res = <-done:
	case <-time.After(40 * time.Second):
		// the bounded retry takes 21 s at most: a discovery still running after 40 s is not going to end
		out.hung = true
	}
	out.elapsed = time.Since(start)
	out.probes = probes
	return out
}

// checkShard returns (signature, message) of a violation, or "".
func checkShard(s shardScript, r shardResult) (string, string) {
	if r.hung {
		return "no-return", "GetSlotState has not returned after 40 s (the bounded retry allows 21 s)"
	}
	if !r.res.Completed {
		return "abort", fmt.Sprintf("GetSlotState aborted: %v", r.res)
	}
	first := -1
	for a := 0; a < c20Attempts && first < 0; a++ {
		for _, n := range s.nodes {
			if s.plan[n][a].isMaster() {
				first = a
				break
			}
		}
	}
	if first < 0 {
		if r.err == nil {
			return "no-master-but-success", fmt.Sprintf("no node ever reports the master role, yet %q was selected", r.node.Source)
		}
		for _, n := range s.nodes {
			if r.probes[n] != c20Attempts {
				return "retry-count", fmt.Sprintf("node %s was probed %d times, want %d (bounded retry)", n, r.probes[n], c20Attempts)
			}
		}
		if r.elapsed > 21*time.Second+8*time.Second {
			return "too-slow", fmt.Sprintf("gave up after %v", r.elapsed)
		}
		return "", ""
	}
	if r.err != nil {
		return "master-not-found", fmt.Sprintf("a node reports master in attempt %d but GetSlotState failed: %v", first, r.err)
	}
	if r.node == nil {
		return "nil-result", "nil node without error"
	}
	masters := map[string]bool{}
	for _, n := range s.nodes {
		if s.plan[n][first].isMaster() {
			masters[n] = true
		}
	}
	if !masters[r.node.Source] {
		return "non-master-chosen", fmt.Sprintf("selected %q which reported %q in the deciding attempt %d", r.node.Source, s.plan[r.node.Source][first], first)
	}
	got := append([]string{r.node.Source}, r.node.Slaves...)
	sort.Strings(got)
	want := append([]string{}, s.nodes...)
	sort.Strings(want)
	if strings.Join(got, ",") != strings.Join(want, ",") {
		sig := "node-list"
		if len(masters) > 1 {
			sig = "node-list:several-masters"
		}
		return sig, fmt.Sprintf("selected source %q with replicas %v; source+replicas must be exactly the known nodes %v", r.node.Source, r.node.Slaves, s.nodes)
	}
	bound := time.Duration(0)
	for i := 0; i < first; i++ {
		bound += time.Duration(6-i) * time.Second
	}
	if r.elapsed > bound+8*time.Second {
		return "too-slow", fmt.Sprintf("took %v, back-off bound for attempt %d is %v", r.elapsed, first, bound)
	}
	return "", ""
}

func c20Batch(t *rapid.T) {
	// source and target may use different transports: the probes go to source nodes and must use the source's setting
	tlsCase := rapid.SampledFrom([][2]bool{{false, false}, {false, true}, {true, false}, {true, true}}).Draw(t, "tls")
	conf.Options.SourceTLSEnable, conf.Options.TargetTLSEnable = tlsCase[0], tlsCase[1]
	defer func() { conf.Options.SourceTLSEnable, conf.Options.TargetTLSEnable = false, false }()
	k := rapid.IntRange(80, 120).Draw(t, "k")
	scripts := make([]shardScript, k)
	for i := range scripts {
		scripts[i] = drawShard(t, i)
	}
	results := make([]shardResult, k)
	var wg sync.WaitGroup
	for i := range scripts {
		wg.Add(1)
		go func(i int) { defer wg.Done(); results[i] = runShard(scripts[i]) }(i)
	}
	wg.Wait()
	for i, s := range scripts {
		sig, msg := checkShard(s, results[i])
		if sig != "" {
			if violation(t, "C20", sig, "shard script [%s]: %s", s, msg) {
				continue
			}
		}
		failing, masterFirst := 0, s.plan[s.nodes[0]][0].isMaster()
		noMaster := results[i].err != nil
		for _, n := range s.nodes {
			for _, b := range s.plan[n] {
				if b == nbConnErr || b == nbCmdErr || b == nbNoRole {
					failing++
					break
				}
			}
		}
		nt := !masterFirst || failing > 0 || noMaster
		cls := []string{"shard"}
		if noMaster {
			cls = append(cls, "no-master")
		}
		stats.C.Case(nt, stats.HashS(s.String()), cls...)
		if nt && len(s.nodes) >= 3 && len(s.nodes) <= 4 {
			stats.C.Sample("shard " + s.String())
		}
	}
	// the other transport combinations, on shards whose master answers in the first round (no back-off)
	for _, tc := range [][2]bool{{false, false}, {false, true}, {true, false}, {true, true}} {
		if tc == tlsCase {
			continue
		}
		conf.Options.SourceTLSEnable, conf.Options.TargetTLSEnable = tc[0], tc[1]
		for i := 0; i < 3; i++ {
			s := drawShard(t, 200+i)
			for n := range s.plan {
				for a := range s.plan[n] {
					s.plan[n][a] = nbSlave
				}
			}
			m := s.nodes[rapid.IntRange(0, len(s.nodes)-1).Draw(t, "tlsMaster")]
			for a := range s.plan[m] {
				s.plan[m][a] = nbMaster
			}
			if sig, msg := checkShard(s, runShard(s)); sig != "" {
				if violation(t, "C20", sig, "source.tls_enable=%v target.tls_enable=%v; shard script [%s]: %s", tc[0], tc[1], s, msg) {
					continue
				}
			}
			stats.C.Case(true, stats.HashS(fmt.Sprint(tc, s.String())), "shard", fmt.Sprintf("tls-source=%v-target=%v", tc[0], tc[1]))
		}
	}
}

func TestC20(t *testing.T) { rapid.Check(t, c20Batch) }

func TestC20Regress(t *testing.T) {
	// fixed: with several masters the earlier master vanished from the node list
	all := func(b nodeBehaviour) []nodeBehaviour {
		out := make([]nodeBehaviour, c20Attempts)
		for i := range out {
			out[i] = b
		}
		return out
	}
	s := shardScript{nodes: []string{"a:1", "b:1", "c:1"}, plan: map[string][]nodeBehaviour{"a:1": all(nbMaster), "b:1": all(nbMaster), "c:1": all(nbSlave)}}
	if sig, msg := checkShard(s, runShard(s)); sig != "" {
		violation(t, "C20", sig, "shard script [%s]: %s", s, msg)
	}
}
