#!/bin/bash
# usage: baseline.sh [repo]  -- runs the pinned suite (guard off) and reports how many of the 51 stable tests pass
repo="${1:-/repo}"
export GOFLAGS=-mod=mod GOPROXY=off GOSUMDB=off GOTOOLCHAIN=local
out=$(mktemp)
(cd "$repo/src" && go test -json -vet=off -count=1 -timeout 25m ./... > "$out" 2>/dev/null)
python3 - "$out" <<'PY'
import json,sys
want=set(json.load(open('/root/.vp/BASELINE.json'))['stable_pass'])
got=set()
for l in open(sys.argv[1]):
    try: d=json.loads(l)
    except: continue
    if d.get('Action')=='pass' and d.get('Test'):
        got.add(d['Package']+'::'+d['Test'])
miss=sorted(want-got)
print("baseline: %d/%d stable tests pass"%(len(want&got),len(want)))
for m in miss: print("  MISSING", m)
sys.exit(1 if miss else 0)
PY
rc=$?
rm -f "$out"; git -C "$repo" checkout -q -- src/go.sum 2>/dev/null
exit $rc
