//go:build verif

package props

import (
	"bufio"
	"fmt"
	"os"
	"strings"
	"testing"

	rlog "github.com/alibaba/RedisShake/pkg/libs/log"

	"verif/harness/logcap"
	"verif/harness/stats"
)

// ---- known findings ------------------------------------------------------------------

type finding struct {
	kind string // "finding" | "fixed"
	prop string
	sig  string
	desc string
}

var findings []finding

func loadFindings() {
	path := os.Getenv("VERIF_KNOWN")
	if path == "" {
		path = "../../known_findings.txt"
	}
	f, err := os.Open(path)
	if err != nil {
		return
	}
	defer f.Close()
	sc := bufio.NewScanner(f)
	for sc.Scan() {
		line := strings.TrimSpace(sc.Text())
		if line == "" || strings.HasPrefix(line, "#") {
			continue
		}
		var fd finding
		switch {
		case strings.HasPrefix(line, "finding:"):
			fd.kind = "finding"
			line = strings.TrimSpace(line[len("finding:"):])
		case strings.HasPrefix(line, "fixed:"):
			fd.kind = "fixed"
			line = strings.TrimSpace(line[len("fixed:"):])
		default:
			continue
		}
		for _, tok := range strings.Fields(line) {
			if strings.HasPrefix(tok, "property=") && fd.prop == "" {
				fd.prop = tok[len("property="):]
			} else if strings.HasPrefix(tok, "sig=") && fd.sig == "" {
				fd.sig = tok[len("sig="):]
			}
		}
		fd.desc = line
		findings = append(findings, fd)
	}
}

// isKnown reports whether sig is listed as an open (not fixed) finding of prop.
func isKnown(prop, sig string) bool {
	for _, f := range findings {
		if f.kind == "finding" && f.prop == prop && f.sig == sig {
			return true
		}
	}
	return false
}

func knownFindings(prop string) []finding {
	var out []finding
	for _, f := range findings {
		if f.kind == "finding" && f.prop == prop {
			out = append(out, f)
		}
	}
	return out
}

// ---- failure reporting -----------------------------------------------------------------

type fataler interface {
	Fatalf(format string, args ...any)
	Logf(format string, args ...any)
	Helper()
}

// violation fails the case unless sig is a listed known finding, in which case it
// is counted and the case is abandoned as passing (returns true = caller must stop
// evaluating this case).
func violation(t fataler, prop, sig, format string, args ...any) bool {
	t.Helper()
	if isKnown(prop, sig) {
		stats.C.KnownHit(sig)
		return true
	}
	t.Fatalf("property %s violated [sig=%s]: %s", prop, sig, fmt.Sprintf(format, args...))
	return true
}

// keepLevel: the log level is owned by the caller (C19 runs the other properties' drivers at a generated level).
var keepLevel bool

// quietLog lowers the tool's log level to info for drivers whose debug output is huge; returns the restore function.
func quietLog() func() {
	if keepLevel {
		return func() {}
	}
	rlog.SetLevel(rlog.LEVEL_INFO)
	return func() { rlog.SetLevel(rlog.LEVEL_ALL) }
}

func envInt(name string, def int) int {
	if v := os.Getenv(name); v != "" {
		var n int
		if _, err := fmt.Sscanf(v, "%d", &n); err == nil {
			return n
		}
	}
	return def
}

// shard returns (index, count) of this process among the driver's parallel shards.
func shard() (int, int) {
	var i, n int
	if _, err := fmt.Sscanf(os.Getenv("VERIF_SHARD"), "%d/%d", &i, &n); err != nil || n < 1 {
		return 0, 1
	}
	return i, n
}

func thorough() bool { return os.Getenv("VERIF_TIER") == "thorough" }

func TestMain(m *testing.M) {
	logcap.Install()
	loadFindings()
	baseConfig()
	code := m.Run()
	b, r := logcap.Cap.Stats()
	stats.C.Count("log_bytes_scanned", b)
	stats.C.Count("log_records", r)
	stats.C.Count("password_leaks_seen", int64(len(logcap.Cap.Leaks)))
	if p := os.Getenv("VERIF_STATS"); p != "" {
		if err := stats.C.Write(p); err != nil {
			fmt.Fprintln(os.Stderr, "stats write:", err)
		}
	}
	os.Exit(code)
}

// ---- known-finding replay -------------------------------------------------------------

type probe struct {
	failed bool
	msg    string
}

func (p *probe) Fatalf(format string, args ...any) {
	p.failed = true
	p.msg = fmt.Sprintf(format, args...)
	panic(probeStop{})
}
func (p *probe) Logf(format string, args ...any) {}
func (p *probe) Helper()                         {}

type probeStop struct{}

// runProbe runs a check with known-finding suppression disabled for sig and reports whether it failed with exactly that signature.
func runProbe(prop, sig string, f func(t fataler)) (failedWithSig bool, msg string) {
	p := &probe{}
	saved := findings
	var tmp []finding
	for _, fd := range findings {
		if !(fd.prop == prop && fd.sig == sig) {
			tmp = append(tmp, fd)
		}
	}
	findings = tmp
	defer func() {
		findings = saved
		if r := recover(); r != nil {
			if _, ok := r.(probeStop); !ok {
				panic(r)
			}
		}
		failedWithSig = p.failed && strings.Contains(p.msg, "[sig="+sig+"]")
		msg = p.msg
	}()
	f(p)
	return
}

// reportKnown replays the regression input of a listed finding: still failing with its signature
// => one KNOWN-FINDING line; failing differently => a violation; not listed => an ordinary check.
func reportKnown(t fataler, prop, sig string, f func(t fataler)) {
	if !isKnown(prop, sig) {
		f(t) // not (or no longer) listed: the input is an ordinary regression case and must pass
		return
	}
	ok, msg := runProbe(prop, sig, f)
	switch {
	case ok:
		for _, fd := range knownFindings(prop) {
			if fd.sig == sig {
				fmt.Printf("KNOWN-FINDING: %s\n", fd.desc)
			}
		}
		stats.C.KnownHit(sig)
	case msg != "":
		t.Fatalf("%s", msg)
	default:
		fmt.Printf("NOTE: listed finding property=%s sig=%s does not reproduce any more on its regression input\n", prop, sig)
	}
}
