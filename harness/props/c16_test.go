//go:build verif

package props

import (
	"fmt"
	"os"
	"path/filepath"
	"strconv"
	"strings"
	"sync"
	"testing"
	"time"

	run "github.com/alibaba/RedisShake/redis-shake"
	utils "github.com/alibaba/RedisShake/redis-shake/common"
	conf "github.com/alibaba/RedisShake/redis-shake/configure"
	redigo "github.com/garyburd/redigo/redis"
	"pgregory.net/rapid"

	"verif/harness/gen"
	"verif/harness/logcap"
	"verif/harness/mredis"
	"verif/harness/stats"
)

type rumpKey struct {
	db      int
	key     string
	val     gen.Value
	payload []byte
	pttl    int64  // -1 none
	vanish  string // "", "before-dump", "before-pttl"
	big     bool
}

type rumpPage struct {
	keys   []int         // indexes into the script's key list
	cursor int64         // cursor returned with this page (0 = last)
	delay  time.Duration // the source takes this long to answer the SCAN that returns this page
}

type rumpScript struct {
	keys     []rumpKey
	pages    map[int][]rumpPage // per db
	dbs      []int
	existing map[int]bool // key index -> present on the target beforehand (rewrite only)
	keyFile  bool
}

type rumpConf struct {
	filt      filterConf
	targetDB  int
	keyNumber uint32
	threshold uint64
	policy    string
	keyFile   bool
	qps       int
	manyKeys  int // this many further keys with plain names and values (key files longer than the scanner's start buffer)
}

func (c rumpConf) apply() {
	o := &conf.Options
	c.filt.apply()
	o.TargetDB, o.ScanKeyNumber, o.BigKeyThreshold, o.KeyExists = c.targetDB, c.keyNumber, c.threshold, c.policy
	o.Qps, o.TargetReplace, o.ScanSpecialCloud = 200000, true, ""
	if c.qps > 0 {
		o.Qps = c.qps
	}
}

func resetRumpConf() {
	rumpConf{targetDB: -1, keyNumber: 50, threshold: 500 * 1024 * 1024, policy: "none"}.apply()
	conf.Options.ScanKeyFile = ""
}

func drawRumpScript(t *rapid.T, c rumpConf, id int) *rumpScript {
	s := &rumpScript{pages: map[int][]rumpPage{}, existing: map[int]bool{}, keyFile: c.keyFile}
	ndb := rapid.IntRange(1, 4).Draw(t, "ndb")
	if c.keyFile {
		ndb = 1
	}
	if c.qps > 0 && ndb < 3 {
		ndb = 3
	}
	dbs := rapid.SliceOfNDistinct(rapid.SampledFrom([]int{0, 1, 2, 3, 7, 10, 11, 15}), ndb, ndb, func(i int) int { return i }).Draw(t, "dbs")
	s.dbs = dbs
	seen := map[string]bool{}
	for _, db := range dbs {
		nk := rapid.SampledFrom([]int{1, 2, 3, int(c.keyNumber) - 1, int(c.keyNumber), int(c.keyNumber) + 1, 2 * int(c.keyNumber), 7}).Draw(t, "nkeys")
		if nk < 1 {
			nk = 1
		}
		if c.manyKeys > 0 && nk > 7 {
			nk = 7
		}
		if c.qps > 0 {
			nk = 4 // a low rate limit makes every key cost time; still more keys than one tick's tokens
		}
		var idx []int
		for i := 0; i < nk; i++ {
			k := string(filterKey().Draw(t, "key"))
			if c.keyFile {
				k = strings.Map(func(r rune) rune {
					if r == '\n' || r == '\r' {
						return '_'
					}
					return r
				}, k)
			}
			if k == "" || seen[fmt.Sprint(db, "/", k)] || (c.targetDB != -1 && seen["*/"+k]) {
				k = fmt.Sprintf("%s#%d.%d.%d", k, id, db, i)
			}
			seen[fmt.Sprint(db, "/", k)], seen["*/"+k] = true, true
			v := gen.DrawValue(t, "", 6)
			if v.Kind != "string" && v.Len() == 0 {
				v = gen.Value{Kind: "string", Str: []byte("was-empty")}
			}
			labels := map[string]bool{}
			enc := gen.EncodeValue(t, v, labels)
			rk := rumpKey{db: db, key: k, val: v, payload: enc.Payload(), pttl: -1}
			if rapid.IntRange(0, 2).Draw(t, "hasttl") == 0 {
				rk.pttl = int64(rapid.IntRange(1000, 1<<40).Draw(t, "pttl"))
			}
			switch rapid.IntRange(0, 9).Draw(t, "vanish") {
			case 0:
				rk.vanish = "before-dump"
			case 1:
				rk.vanish = "before-pttl"
			}
			rk.big = uint64(len(rk.payload)) >= c.threshold
			if c.policy == "rewrite" && rapid.IntRange(0, 5).Draw(t, "exists") == 0 {
				s.existing[len(s.keys)] = true
			}
			idx = append(idx, len(s.keys))
			s.keys = append(s.keys, rk)
		}
		for i := 0; i < c.manyKeys; i++ {
			k := fmt.Sprintf("bulk:%d:%d:%05d:%s", id, db, i, strings.Repeat("x", i%23))
			v := gen.Value{Kind: "string", Str: []byte(fmt.Sprintf("value-%d", i))}
			rk := rumpKey{db: db, key: k, val: v, payload: gen.Payload(gen.TString, gen.AppendRawString(nil, v.Str), gen.DumpVersion), pttl: -1}
			rk.big = uint64(len(rk.payload)) >= c.threshold
			idx = append(idx, len(s.keys))
			s.keys = append(s.keys, rk)
		}
		// pagination: any cursor sequence, empty pages, pages smaller/equal/larger than the batch size
		var pages []rumpPage
		cur := int64(rapid.IntRange(1, 1<<30).Draw(t, "cursor0"))
		for len(idx) > 0 || len(pages) == 0 {
			if rapid.IntRange(0, 4).Draw(t, "emptyPage") == 0 {
				pages = append(pages, rumpPage{cursor: cur})
				cur += int64(rapid.IntRange(1, 1000).Draw(t, "cstep"))
				continue
			}
			n := rapid.SampledFrom([]int{1, 2, int(c.keyNumber), int(c.keyNumber) + 3, len(idx)}).Draw(t, "pageSize")
			if n > len(idx) {
				n = len(idx)
			}
			if n < 1 {
				n = 1
			}
			pages = append(pages, rumpPage{keys: idx[:n], cursor: cur})
			idx = idx[n:]
			cur += int64(rapid.IntRange(1, 1000).Draw(t, "cstep"))
		}
		if rapid.Bool().Draw(t, "trailingEmpty") {
			pages = append(pages, rumpPage{cursor: cur})
		}
		if c.qps > 0 && len(pages) >= 2 && db == dbs[0] {
			// a slow source early in the run: tokens of the rate limiter stay unused for a tick
			pages[1].delay = 1300 * time.Millisecond
		}
		pages[len(pages)-1].cursor = 0
		s.pages[db] = pages
	}
	return s
}

func (s *rumpScript) String() string {
	var parts []string
	for _, db := range s.dbs {
		var pp []string
		for _, p := range s.pages[db] {
			var ks []string
			for _, i := range p.keys {
				k := s.keys[i]
				ks = append(ks, fmt.Sprintf("%q(%s,%dB,pttl=%d%s%s)", k.key, k.val.Kind, len(k.payload), k.pttl, map[bool]string{true: ",big"}[k.big], map[bool]string{true: ",vanish=" + k.vanish}[k.vanish != ""]))
			}
			pp = append(pp, fmt.Sprintf("[%s]->%d", strings.Join(ks, " "), p.cursor))
		}
		parts = append(parts, fmt.Sprintf("db%d: %s", db, strings.Join(pp, " ")))
	}
	return fmt.Sprintf("keyfile=%v existing=%v %s", s.keyFile, s.existing, strings.Join(parts, " | "))
}

// newRumpSource builds the model source with its scripted SCAN/DUMP/PTTL behaviour.
func newRumpSource(s *rumpScript) *mredis.Server {
	src := mredis.New()
	src.Password = srcSentinel
	byKey := map[string]*rumpKey{}
	for i := range s.keys {
		k := &s.keys[i]
		e := mredis.FromValue(k.val)
		e.Payload = k.payload
		src.Put(k.db, k.key, e)
		byKey[fmt.Sprint(k.db, "/", k.key)] = k
	}
	next := map[string]int{} // "db/cursor" -> page index
	for db, pages := range s.pages {
		next[fmt.Sprint(db, "/0")] = 0
		for i, p := range pages {
			if p.cursor != 0 {
				next[fmt.Sprint(db, "/", p.cursor)] = i + 1
			}
		}
	}
	src.Gate = func(cs *mredis.ConnState, argv [][]byte) {
		if strings.EqualFold(string(argv[0]), "scan") && len(argv) > 1 {
			if pi, ok := next[fmt.Sprint(cs.DB, "/", string(argv[1]))]; ok && pi < len(s.pages[cs.DB]) {
				time.Sleep(s.pages[cs.DB][pi].delay)
			}
		}
	}
	src.Hook = func(cs *mredis.ConnState, argv [][]byte) *mredis.Reply {
		switch strings.ToLower(string(argv[0])) {
		case "scan":
			pi, ok := next[fmt.Sprint(cs.DB, "/", string(argv[1]))]
			pages := s.pages[cs.DB]
			if !ok || pi >= len(pages) {
				r := mredis.Arr(mredis.Bulk([]byte("0")), mredis.Arr())
				return &r
			}
			var ks []mredis.Reply
			for _, i := range pages[pi].keys {
				ks = append(ks, mredis.Bulk([]byte(s.keys[i].key)))
			}
			r := mredis.Arr(mredis.Bulk([]byte(strconv.FormatInt(pages[pi].cursor, 10))), mredis.Arr(ks...))
			return &r
		case "dump":
			if k := byKey[fmt.Sprint(cs.DB, "/", string(argv[1]))]; k != nil && k.vanish == "before-dump" {
				r := mredis.Nil()
				return &r
			}
		case "pttl":
			k := byKey[fmt.Sprint(cs.DB, "/", string(argv[1]))]
			if k == nil || k.vanish != "" {
				r := mredis.Int(-2)
				return &r
			}
			r := mredis.Int(k.pttl)
			return &r
		}
		return nil
	}
	src.Listen()
	return src
}

type rumpOutcome struct{ sig, msg string }

var rumpKeyFileMu sync.Mutex

func runRump(c rumpConf, s *rumpScript, id int) rumpOutcome {
	src := newRumpSource(s)
	defer src.Close()
	tgt := newTarget(targetKinds[3])
	defer tgt.Close()
	sentinel := gen.Value{Kind: "hash", Hash: []gen.HE{{Field: []byte("old-field"), Value: []byte("old")}}}
	for i, k := range s.keys {
		tgt.Register(k.payload, k.val)
		if s.existing[i] {
			db := k.db
			if c.targetDB != -1 {
				db = c.targetDB
			}
			tgt.Put(db, k.key, mredis.FromValue(sentinel))
		}
	}
	open := func(addr, pw string) redigo.Conn {
		var cn redigo.Conn
		logcap.Run(func() { cn, _ = utils.OpenRedisConn([]string{addr}, "auth", pw, false, false) })
		return cn
	}
	sc, tc, bc := open(src.Addr(), srcSentinel), open(tgt.Addr(), tgtSentinel), open(tgt.Addr(), tgtSentinel)
	if sc == nil || tc == nil || bc == nil {
		return rumpOutcome{"harness", "cannot open connections"}
	}
	ex := run.NewDbRumperExecutor(0, id, sc, tc, bc, "")
	gidCh := make(chan int64, 1)
	done := logcap.Start(func() { gidCh <- logcap.Gid(); ex.VerifExec() })
	gid := <-gidCh
	var res logcap.Result
	deadline := time.After(20 * time.Second)
wait:
	for {
		select {
		case res = <-done:
			break wait
		case <-time.After(50 * time.Millisecond):
			// the fetcher/writer/receiver goroutines abort on their own; the executor then never returns
			if ab := logcap.Cap.TakeAbortsOf(func(a logcap.Abort) bool { return a.Parent == gid }); len(ab) > 0 {
				src.Close()
				tgt.Close()
				return rumpOutcome{"abort", "the run aborted: " + ab[0].Msg}
			}
		case <-deadline:
			if os.Getenv("VERIF_DEBUG_DUMP") != "" {
				fmt.Println(goroutineDump())
			}
			src.Close()
			tgt.Close()
			return rumpOutcome{"no-termination", "the executor did not return within 20 s of start (the final scan cursor of the last database had been served)"}
		}
	}
	time.Sleep(5 * time.Millisecond)
	if ab := logcap.Cap.TakeAbortsOf(func(a logcap.Abort) bool { return a.Parent == gid }); len(ab) > 0 && res.Completed {
		res.Completed, res.Aborted, res.AbortMsg = false, true, ab[0].Msg
	}
	if !res.Completed {
		return rumpOutcome{"abort", fmt.Sprintf("the run aborted: %v", res)}
	}
	if rumpArrivedHook != nil {
		rumpArrivedHook(tgt)
	}
	if len(tgt.UnknownPayloads) > 0 {
		return rumpOutcome{"payload-altered", fmt.Sprint(tgt.UnknownPayloads)}
	}
	expected := map[string]bool{}
	for i, k := range s.keys {
		db := k.db
		if c.targetDB != -1 {
			db = c.targetDB
		}
		pass := c.filt.dbPass(k.db) && (!c.filt.hasKeyFilter() || (c.filt.listPass(k.key) && !isCheckpointKey(k.key)))
		got := tgt.Get(db, k.key)
		id := fmt.Sprintf("%d/%s", db, k.key)
		if !pass || k.vanish != "" {
			if s.existing[i] {
				expected[id] = true
				continue
			}
			if got != nil {
				why := "is filtered"
				if k.vanish != "" {
					why = "vanished (" + k.vanish + ")"
				}
				return rumpOutcome{"unexpected-key", fmt.Sprintf("key %q of db %d %s but is on the target", k.key, k.db, why)}
			}
			continue
		}
		expected[id] = true
		if got == nil {
			return rumpOutcome{"key-missing", fmt.Sprintf("key %q of source db %d (big=%v) is not in target db %d", k.key, k.db, k.big, db)}
		}
		if d := got.Same(mredis.FromValue(k.val)); d != "" {
			sig := "value"
			if k.big && s.existing[i] {
				sig = "value:big-key-merged-into-existing"
			}
			return rumpOutcome{sig, fmt.Sprintf("key %q (big=%v, existed=%v): %s", k.key, k.big, s.existing[i], d)}
		}
		if (k.pttl > 0) != got.HasTTL || (k.pttl > 0 && got.TTLGiven != k.pttl) {
			return rumpOutcome{"ttl", fmt.Sprintf("key %q (big=%v): source PTTL %d, target ttl %v/%d", k.key, k.big, k.pttl, got.HasTTL, got.TTLGiven)}
		}
	}
	for db := 0; db < 16; db++ {
		for _, k := range tgt.Keys(db) {
			if !expected[fmt.Sprintf("%d/%s", db, k)] {
				return rumpOutcome{"unexpected-key", fmt.Sprintf("target db %d holds %q, which no scanned key maps to", db, k)}
			}
		}
	}
	return rumpOutcome{}
}

func c16Batch(t *rapid.T) { c16BatchWith(t, false) }

// c16BatchBigTargetDB: the same batches with the configuration pinned to the class "fixed target database and
// element-by-element route" (both rare on their own in the free draw).
func c16BatchBigTargetDB(t *rapid.T) { c16BatchWith(t, true) }

func c16BatchWith(t *rapid.T, bigTargetDB bool) {
	c := rumpConf{targetDB: rapid.SampledFrom([]int{-1, -1, 0, 4}).Draw(t, "targetDB"),
		keyNumber: uint32(rapid.SampledFrom([]int{1, 2, 3, 5, 50}).Draw(t, "keyNumber")),
		threshold: rapid.SampledFrom([]uint64{500 * 1024 * 1024, 500 * 1024 * 1024, 30, 60, 1}).Draw(t, "threshold"),
		policy:    rapid.SampledFrom([]string{"none", "rewrite"}).Draw(t, "policy")}
	if c.targetDB != -1 && rapid.Bool().Draw(t, "bigRouteWithTargetDB") {
		// the element-by-element route together with a fixed target database
		c.threshold = rapid.SampledFrom([]uint64{1, 30, 60}).Draw(t, "lowThreshold")
	}
	if bigTargetDB {
		c.targetDB = rapid.SampledFrom([]int{0, 4, 4}).Draw(t, "fixedTargetDB")
		c.threshold = rapid.SampledFrom([]uint64{1, 30, 60}).Draw(t, "lowThreshold2")
	}
	c.filt = drawFilterConf(t, false, nil)
	c.filt.slots, c.filt.lua = nil, false
	if bigTargetDB && rapid.Bool().Draw(t, "noFilters") {
		c.filt = filterConf{}
	}
	if rapid.IntRange(0, 3).Draw(t, "lowQps") == 0 {
		c.qps = rapid.SampledFrom([]int{2, 3, 5}).Draw(t, "qps") // the rate limiter really limits
	}
	c.apply()
	defer resetRumpConf()
	defer quietLog()()
	k := rapid.IntRange(8, 20).Draw(t, "k")
	scripts := make([]*rumpScript, k)
	for i := range scripts {
		scripts[i] = drawRumpScript(t, c, i)
	}
	outs := make([]rumpOutcome, k)
	var wg sync.WaitGroup
	for i := range scripts {
		wg.Add(1)
		go func(i int) { defer wg.Done(); outs[i] = runRump(c, scripts[i], i) }(i)
	}
	wg.Wait()
	c16Report(t, c, scripts, outs)
}

func c16Report(t fataler, c rumpConf, scripts []*rumpScript, outs []rumpOutcome) {
	for i, o := range outs {
		s := scripts[i]
		if o.sig != "" {
			if violation(t, "C16", o.sig, "config %+v; %s: %s", c, s, o.msg) {
				continue
			}
		}
		empty, vanished, big := false, false, false
		for _, pages := range s.pages {
			for _, p := range pages {
				if len(p.keys) == 0 {
					empty = true
				}
			}
		}
		for _, k := range s.keys {
			vanished = vanished || k.vanish != ""
			big = big || k.big
		}
		nt := len(s.dbs) >= 2 && empty && vanished
		cls := []string{"executor"}
		if big {
			cls = append(cls, "with-big-key")
		}
		if s.keyFile {
			cls = append(cls, "key-file")
		}
		stats.C.Case(nt, stats.HashS(fmt.Sprintf("%+v %s", c, s)), cls...)
		if nt && len(s.keys) <= 6 {
			stats.C.Sample(fmt.Sprintf("config %+v; %s", c, s))
		}
	}
}

// key-file driven scans: one executor at a time (the key file path is a global option)
func c16KeyFile(t *rapid.T) {
	c := rumpConf{targetDB: rapid.SampledFrom([]int{-1, 0, 4}).Draw(t, "targetDB"),
		keyNumber: uint32(rapid.SampledFrom([]int{1, 2, 3, 5}).Draw(t, "keyNumber")),
		threshold: rapid.SampledFrom([]uint64{500 * 1024 * 1024, 40}).Draw(t, "threshold"),
		policy:    rapid.SampledFrom([]string{"none", "rewrite"}).Draw(t, "policy"), keyFile: true}
	c.filt = drawFilterConf(t, false, nil)
	c.filt.slots, c.filt.lua, c.filt.dbWhite, c.filt.dbBlack = nil, false, nil, nil
	if c16ForceLong || rapid.IntRange(0, 3).Draw(t, "longKeyFile") == 2 {
		// a key file of 5-20 KiB: longer than the line scanner's 4 KiB start buffer
		c.manyKeys = rapid.IntRange(180, 600).Draw(t, "manyKeys")
		c.keyNumber = uint32(rapid.SampledFrom([]int{5, 50, 100, 100}).Draw(t, "keyNumberLong")) // 100 is the default
	}
	c.apply()
	defer resetRumpConf()
	defer quietLog()()
	s := drawRumpScript(t, c, 0)
	dir, err := os.MkdirTemp("", "verif-c16-")
	if err != nil {
		t.Fatalf("harness: %v", err)
	}
	defer os.RemoveAll(dir)
	if len(s.keys) > 0 && rapid.Bool().Draw(t, "blankInKey") {
		// key names may contain blanks and tabs; a line of the key file is one key
		i := rapid.IntRange(0, len(s.keys)-1).Draw(t, "whichKey")
		if !strings.ContainsAny(s.keys[i].key, "\n\r") && !c.filt.hasKeyFilter() {
			s.keys[i].key += rapid.SampledFrom([]string{" x", "\ty", " ", "  two  blanks"}).Draw(t, "blank")
		}
	}
	var lines []string
	hasEmptyKey := false
	for _, k := range s.keys {
		lines = append(lines, k.key)
		hasEmptyKey = hasEmptyKey || k.key == ""
	}
	if !hasEmptyKey && len(lines) > 1 && rapid.Bool().Draw(t, "blankLines") {
		// blank lines in the key file name the (absent) key "": they cost nothing and must not end the scan early
		for i := rapid.IntRange(1, 3).Draw(t, "nblank"); i > 0; i-- {
			at := rapid.IntRange(0, len(lines)-1).Draw(t, "blankAt")
			lines = append(lines[:at], append([]string{""}, lines[at:]...)...)
		}
	}
	path := filepath.Join(dir, "keys.txt")
	os.WriteFile(path, []byte(strings.Join(lines, "\n")+"\n"), 0644)
	conf.Options.ScanKeyFile = path
	o := runRump(c, s, 0)
	c16Report(t, c, []*rumpScript{s}, []rumpOutcome{o})
}

func TestC16(t *testing.T)            { rapid.Check(t, c16Batch) }
func TestC16BigTargetDB(t *testing.T) { rapid.Check(t, c16BatchBigTargetDB) }
func TestC16KeyFile(t *testing.T)     { rapid.Check(t, c16KeyFile) }

// c16ForceLong pins the rare class "key file longer than the scanner's start buffer" (TestC16LongKeyFile).
var c16ForceLong bool

func TestC16LongKeyFile(t *testing.T) {
	c16ForceLong = true
	defer func() { c16ForceLong = false }()
	rapid.Check(t, c16KeyFile)
}

func TestC16Regress(t *testing.T) {
	// fixed D18: big key + key_exists=rewrite + a key that already exists on the target
	c := rumpConf{targetDB: -1, keyNumber: 2, threshold: 1, policy: "rewrite"}
	c.apply()
	defer resetRumpConf()
	sv := gen.Value{Kind: "set", Set: [][]byte{[]byte("m1"), []byte("m2")}}
	val := gen.AppendLen(nil, 2, 0)
	val = gen.AppendRawString(val, []byte("m1"))
	val = gen.AppendRawString(val, []byte("m2"))
	s := &rumpScript{keys: []rumpKey{{db: 0, key: "bigset", val: sv, payload: gen.Payload(gen.TSet, val, gen.DumpVersion), pttl: -1, big: true}},
		pages: map[int][]rumpPage{0: {{keys: []int{0}, cursor: 0}}}, dbs: []int{0}, existing: map[int]bool{0: true}}
	o := runRump(c, s, 0)
	c16Report(t, c, []*rumpScript{s}, []rumpOutcome{o})
}
