//go:build verif

package props

import (
	"bytes"
	"fmt"
	"strconv"
	"strings"
	"sync"
	"testing"
	"time"

	"pgregory.net/rapid"

	"verif/harness/mredis"
	"verif/harness/stats"
)

type c03Script struct {
	st      *incrStream
	startDB int // database selected when the stream starts (resumed), -1: the stream begins with SELECT
	splits  []int
	delays  []time.Duration
	trickle bool
}

type c03Outcome struct {
	sig, msg string
	flushes  int
	obs      []applied
}

func newIncrTarget() *mredis.Server {
	s := mredis.New()
	s.Password = tgtSentinel
	s.Listen()
	return s
}

// runIncrScript runs one stream through a fresh syncer and evaluates the C03 oracle.
func runIncrScript(c incrConf, sc c03Script) c03Outcome {
	srv := newIncrTarget()
	startDB := sc.startDB
	if startDB < 0 {
		startDB = 0
	}
	in := startIncr(srv, c.resume, "runid-0000000000000000000000000000000000000", startDB, 1000)
	defer func() { in.stop(); go in.reap() }()
	want := expectedApplied(sc.st, c, sc.startDB)
	in.feed(sc.st.bytes, sc.splits, sc.delays)
	in.waitApplied(len(want), 5*time.Second)
	time.Sleep(30 * time.Millisecond)
	if ab := in.aborts(); len(ab) > 0 {
		return c03Outcome{sig: "abort", msg: fmt.Sprintf("the syncer aborted while the stream was being delivered: %s", ab[0].Msg)}
	}
	obs := in.observed()
	out := c03Outcome{obs: obs}
	// distinct flush groups: bursts of commands separated in time
	var last time.Time
	for _, cm := range srv.LogCopy() {
		if cm.Name == "auth" {
			continue
		}
		if last.IsZero() || cm.At.Sub(last) > 100*time.Millisecond {
			out.flushes++
		}
		last = cm.At
	}
	for i := 0; i < len(want) || i < len(obs); i++ {
		switch {
		case i >= len(obs):
			out.sig, out.msg = "missing", fmt.Sprintf("command %d of %d expected on the target never arrived within 5 s of the last source byte: %s; the target received: %s", i, len(want), want[i], rawTail(srv, 14))
		case i >= len(want):
			out.sig, out.msg = "surplus", fmt.Sprintf("the target applied a command the reference does not expect (position %d): %s", i, obs[i])
		case !sameApplied(want[i], obs[i]):
			out.sig = "differs"
			if want[i].name == obs[i].name && want[i].db != obs[i].db {
				out.sig = "wrong-db"
			}
			out.msg = fmt.Sprintf("position %d: target applied %s, expected %s", i, obs[i], want[i])
		default:
			continue
		}
		break
	}
	// bounded time: every forwarded command is applied soon after it was delivered, also while the stream keeps trickling
	if out.sig == "" {
		for i := range want {
			d := in.deliveredAt(want[i].end)
			if !d.IsZero() && obs[i].at.Sub(d) > 2500*time.Millisecond {
				out.sig, out.msg = "late", fmt.Sprintf("command %s was applied %v after it had been delivered to the syncer (flush tick is 500 ms)", want[i], obs[i].at.Sub(d).Round(time.Millisecond))
				break
			}
		}
	}
	return out
}

// rawTail renders the last n commands the target received, as received.
func rawTail(srv *mredis.Server, n int) string {
	log := srv.LogCopy()
	if len(log) > n {
		log = log[len(log)-n:]
	}
	var parts []string
	for _, cm := range log {
		var a []string
		for _, x := range cm.Argv {
			if len(x) > 24 {
				x = x[:24]
			}
			a = append(a, strconv.Quote(string(x)))
		}
		parts = append(parts, strings.Join(a, " "))
	}
	return strings.Join(parts, " ; ")
}

func (sc c03Script) String() string {
	var parts []string
	for _, c := range sc.st.cmds {
		var a []string
		for _, x := range c.argv {
			a = append(a, fmt.Sprintf("%q", x))
		}
		parts = append(parts, strings.Join(a, " "))
	}
	return fmt.Sprintf("startDB=%d splits=%v delays=%v stream=[%s]", sc.startDB, sc.splits, sc.delays, strings.Join(parts, " ; "))
}

func c03Sig(c incrConf, sc c03Script, o c03Outcome) string {
	sig := o.sig
	if c.targetDB != -1 && (o.sig == "wrong-db" || o.sig == "differs") {
		sig += ":target.db"
	}
	return sig
}

func drawC03Script(t *rapid.T, c incrConf, trickleBatch bool) c03Script {
	sc := c03Script{startDB: -1}
	o := streamOpts{maxCmds: 25, startSelect: true, dbs: []int{0, 1, 2, 5, 11}}
	// a stream continued after a resume starts inside the recorded database; checkpoints are only
	// ever written into databases that pass the db filter
	var okDBs []int
	for _, d := range []int{0, 1, 5} {
		if c.filt.dbPass(d) {
			okDBs = append(okDBs, d)
		}
	}
	if c.resume && len(okDBs) > 0 && rapid.Bool().Draw(t, "resumedStream") {
		o.startSelect = false
		sc.startDB = rapid.SampledFrom(okDBs).Draw(t, "startDB")
		// a checkpoint can fall inside a source transaction: the resumed stream then starts mid-block
		o.startInTx = rapid.IntRange(0, 2).Draw(t, "startInTx") == 0
	}
	o.selectInTx = true
	o.noCkKeys = c.resume
	trickle := trickleBatch && rapid.Bool().Draw(t, "trickle")
	if trickle {
		// no barriers (SELECT/MULTI/EXEC flush what is cached): only the ticker can flush a trickle
		o.minCmds, o.maxCmds, o.noSelect, o.noMulti, o.startInTx = 8, 11, true, true, false
	}
	sc.st = drawStream(t, o)
	if trickle {
		// a steady trickle: one command every 300-450 ms, below the count/size thresholds
		n := len(sc.st.cmds)
		for i := 0; i < n-1; i++ {
			sc.splits = append(sc.splits, int(sc.st.cmds[i].end))
			sc.delays = append(sc.delays, time.Duration(rapid.IntRange(300, 450).Draw(t, "gap"))*time.Millisecond)
		}
		sc.trickle = true
		return sc
	}
	sc.splits, sc.delays = drawSplits(t, len(sc.st.bytes), 1200*time.Millisecond)
	return sc
}

func c03Batch(t *rapid.T) {
	resume := rapid.IntRange(0, 2).Draw(t, "resume") == 0
	c := drawIncrConf(t, resume)
	// trickle batches: thresholds high enough that only the 500 ms ticker can flush
	trickleBatch := rapid.IntRange(0, 2).Draw(t, "trickleBatch") == 0
	if trickleBatch {
		c.senderCount, c.senderSize = 1024, 104857600
	}
	c.apply()
	defer resetIncrConf()
	k := rapid.IntRange(8, 24).Draw(t, "k")
	scripts := make([]c03Script, k)
	for i := range scripts {
		scripts[i] = drawC03Script(t, c, trickleBatch)
	}
	outs := make([]c03Outcome, k)
	var wg sync.WaitGroup
	for i := range scripts {
		wg.Add(1)
		go func(i int) { defer wg.Done(); outs[i] = runIncrScript(c, scripts[i]) }(i)
	}
	wg.Wait()
	for i, o := range outs {
		sc := scripts[i]
		if o.sig != "" {
			if violation(t, "C03", c03Sig(c, sc, o), "config %+v; %s: %s", c, sc, o.msg) {
				continue
			}
		}
		nsel, nfilt := 0, len(sc.st.cmds)-len(o.obs)
		for _, cm := range sc.st.cmds {
			if cm.name() == "select" {
				nsel++
			}
		}
		nt := nsel >= 2 && nfilt >= 1 && o.flushes >= 2
		cls := []string{"stream", fmt.Sprintf("resume=%v", c.resume), fmt.Sprintf("target.db=%v", c.targetDB != -1)}
		if sc.trickle {
			cls = append(cls, "trickle")
		}
		if o.flushes >= 2 {
			cls = append(cls, "multi-flush")
		}
		stats.C.Case(nt, stats.HashS(fmt.Sprintf("%+v %s", c, sc)), cls...)
		if nt && len(sc.st.cmds) <= 8 {
			stats.C.Sample(fmt.Sprintf("config %+v; %s => %d commands applied in %d flushes", c, sc, len(o.obs), o.flushes))
		}
	}
}

func TestC03(t *testing.T) { rapid.Check(t, c03Batch) }

func TestC03Regress(t *testing.T) {
	// fixed D6: fixed target.db and a first source SELECT of that same database
	c := incrConf{targetDB: 5, senderCount: 1024, senderSize: 104857600}
	c.apply()
	defer resetIncrConf()
	st := &incrStream{}
	var buf bytes.Buffer
	for _, argv := range [][][]byte{bb("select", "5"), bb("set", "a", "1"), bb("select", "1"), bb("set", "b", "2"), bb("select", "5"), bb("set", "c", "3")} {
		encodeCmd(&buf, argv)
		st.cmds = append(st.cmds, srcCmd{argv: argv, end: int64(buf.Len())})
	}
	st.bytes = buf.Bytes()
	sc := c03Script{st: st, startDB: -1}
	if o := runIncrScript(c, sc); o.sig != "" {
		violation(t, "C03", c03Sig(c, sc, o), "config %+v; %s: %s", c, sc, o.msg)
	}
	resetIncrConf()
	// fixed D15: a source transaction that switches into a filtered database: its EXEC was dropped with the
	// database, the sender kept waiting for it and forwarded the next source MULTI (without its EXEC) to the target
	c = incrConf{targetDB: -1, senderCount: 1024, senderSize: 104857600, filt: filterConf{dbBlack: []string{"11"}}}
	c.apply()
	st = &incrStream{}
	buf.Reset()
	for _, argv := range [][][]byte{bb("select", "2"), bb("set", "a", "1"), bb("multi"), bb("select", "11"), bb("set", "k", "v"), bb("exec"),
		bb("select", "0"), bb("multi"), bb("set", "b", "2"), bb("exec"), bb("set", "c", "3")} {
		encodeCmd(&buf, argv)
		st.cmds = append(st.cmds, srcCmd{argv: argv, end: int64(buf.Len())})
	}
	st.bytes = buf.Bytes()
	sc = c03Script{st: st, startDB: -1}
	if o := runIncrScript(c, sc); o.sig != "" {
		violation(t, "C03", c03Sig(c, sc, o), "config %+v; %s: %s", c, sc, o.msg)
	}
}
