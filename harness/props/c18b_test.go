//go:build verif

package props

import (
	"fmt"
	"sync"
	"testing"
	"time"

	"github.com/alibaba/RedisShake/pkg/libs/io/backlog"
	"pgregory.net/rapid"

	"verif/harness/stats"
)

// c18Writers: several goroutines write at the same time. Whatever order the writes end up in, the bytes of one Write stay
// together: the log is a sequence of whole writes, so that "the bytes written at offset o" is well defined for every o.
// Every write is filled with one byte value of its own; writes larger than half the ring (and larger than the ring) are
// split inside the backlog, which is where another writer could slip in.
func c18Writers(t *rapid.T) {
	units := rapid.SampledFrom([]int{1, 1, 2}).Draw(t, "units")
	capacity := units * backlog.BuffSizeAlign
	bl := backlog.NewSize(capacity)
	defer bl.Close()
	if rapid.Bool().Draw(t, "slowStore") {
		backlog.VerifSlowWrite(bl, time.Duration(rapid.SampledFrom([]int{50, 300}).Draw(t, "us"))*time.Microsecond)
	}
	nw := rapid.IntRange(2, 4).Draw(t, "writers")
	type wr struct {
		val  byte
		size int
	}
	plan := make([][]wr, nw)
	sizes := map[byte]int{}
	next := byte(1)
	total := 0
	for i := range plan {
		for j := rapid.IntRange(2, 5).Draw(t, "nwrites"); j > 0; j-- {
			sz := rapid.SampledFrom([]int{1, 100, capacity/2 + 1, capacity - 1, capacity, capacity + 5, 3000}).Draw(t, "size")
			plan[i] = append(plan[i], wr{next, sz})
			sizes[next] = sz
			total += sz
			next++
		}
	}
	var wg sync.WaitGroup
	start := make(chan struct{})
	errs := make(chan string, 64)
	for i := range plan {
		wg.Add(1)
		go func(i int) {
			defer wg.Done()
			<-start
			for _, w := range plan[i] {
				b := make([]byte, w.size)
				for k := range b {
					b[k] = w.val
				}
				if n, err := bl.Write(b); n != w.size || err != nil {
					errs <- fmt.Sprintf("Write(%d) = %d, %v", w.size, n, err)
					return
				}
			}
		}(i)
	}
	close(start)
	done := make(chan struct{})
	go func() { wg.Wait(); close(done) }()
	select {
	case <-done:
	case <-time.After(20 * time.Second):
		violation(t, "C18", "writers-stuck", "%d concurrent writers (ring %d): not all writes returned within 20 s", nw, capacity)
		return
	}
	select {
	case e := <-errs:
		violation(t, "C18", "write:concurrent", "%d concurrent writers (ring %d): %s", nw, capacity, e)
		return
	default:
	}
	rp, wp, err := bl.DataRange()
	if err != nil || wp != uint64(total) {
		violation(t, "C18", "datarange:concurrent", "after %d bytes in concurrent writes DataRange() = %d,%d,%v", total, rp, wp, err)
		return
	}
	// read the whole retained range back
	got := make([]byte, 0, wp-rp)
	for o := rp; o < wp; {
		b := make([]byte, 8192)
		n, err := bl.ReadAt(b, o)
		if err != nil || n == 0 {
			violation(t, "C18", "read:concurrent", "ReadAt(%d) in [%d,%d] = %d, %v", o, rp, wp, n, err)
			return
		}
		got = append(got, b[:n]...)
		o += uint64(n)
	}
	// runs of equal bytes: every run but the first (cut by the range's lower edge) is one whole write, and no write appears twice
	seen := map[byte]bool{}
	for i := 0; i < len(got); {
		j := i
		for j < len(got) && got[j] == got[i] {
			j++
		}
		v := got[i]
		if seen[v] {
			violation(t, "C18", "write-interleaved", "%d concurrent writers (ring %d): the bytes of the write filled with %#x appear in two separate places of the log (second run at offset %d): another writer's bytes landed inside it", nw, capacity, v, rp+uint64(i))
			return
		}
		seen[v] = true
		if i > 0 && j-i != sizes[v] {
			violation(t, "C18", "write-interleaved", "%d concurrent writers (ring %d): the write filled with %#x has %d bytes, the log holds a run of %d at offset %d", nw, capacity, v, sizes[v], j-i, rp+uint64(i))
			return
		}
		if i == 0 && j-i > sizes[v] {
			violation(t, "C18", "write-interleaved", "first run longer than its write")
			return
		}
		i = j
	}
	stats.C.Case(nw >= 3, stats.HashS(fmt.Sprint(capacity, plan)), "concurrent-writers")
}

func TestC18Writers(t *testing.T) { rapid.Check(t, c18Writers) }
