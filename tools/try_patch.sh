#!/bin/bash
# usage: try_patch.sh <patch.diff> <property> [tier]   -- applies the patch to /repo, runs the check, always reverts.
set -u
patch="$(realpath "$1")"; prop="$2"; tier="${3:-quick}"
if [ -n "$(git -C /repo status --porcelain)" ]; then echo "REPO DIRTY, refusing"; exit 3; fi
trap 'git -C /repo reset -q --hard HEAD; git -C /repo clean -fdq -- src' EXIT
git -C /repo apply "$patch" 2>/dev/null || git -C /repo apply --3way "$patch" || { echo "APPLY FAILED"; exit 3; }
cd /verif && VERIF_NOEVIDENCE=1 VERIF_REPLAY_DIR=/tmp/verif-mutant-replays ./check "$prop" --tier "$tier" 2>&1 | tail -${TAIL:-6}
echo "rc=${PIPESTATUS[0]}"
