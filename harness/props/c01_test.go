//go:build verif

package props

import (
	"bufio"
	"bytes"
	"encoding/binary"
	"fmt"
	"io"
	"sort"
	"strings"
	"testing"

	"github.com/alibaba/RedisShake/pkg/libs/atomic2"
	"github.com/alibaba/RedisShake/pkg/rdb"
	utils "github.com/alibaba/RedisShake/redis-shake/common"
	"pgregory.net/rapid"

	"verif/harness/gen"
	"verif/harness/logcap"
	"verif/harness/ref"
	"verif/harness/stats"
)

func labelList(m map[string]bool) []string {
	var out []string
	for k := range m {
		out = append(out, k)
	}
	sort.Strings(out)
	return out
}

// loadAll drives the real loader over r and returns the entries, or the first error.
func loadAll(r io.Reader) (entries []*rdb.BinEntry, err error, res logcap.Result) {
	res = logcap.Run(func() {
		l := rdb.NewLoader(r)
		if err = l.Header(); err != nil {
			err = fmt.Errorf("header: %v", err)
			return
		}
		for {
			var e *rdb.BinEntry
			e, err = l.NextBinEntry()
			if err != nil {
				err = fmt.Errorf("entry %d: %v", len(entries), err)
				return
			}
			if e == nil {
				break
			}
			entries = append(entries, e)
		}
		if err = l.Footer(); err != nil {
			err = fmt.Errorf("footer: %v", err)
		}
	})
	return
}

// loadViaChannel drives utils.NewRDBLoader (the path used by sync/restore/decode).
func loadViaChannel(r io.Reader, bufSize int) (entries []*rdb.BinEntry, aborted string) {
	var n atomic2.Int64
	var gid int64
	res := logcap.Run(func() {
		gid = logcap.Gid()
		ch := utils.NewRDBLoader(bufio.NewReaderSize(r, bufSize), &n, 4)
		for e := range ch {
			entries = append(entries, e)
		}
	})
	if !res.Completed {
		return entries, res.String()
	}
	if ab := logcap.Cap.TakeAbortsOf(func(a logcap.Abort) bool { return a.Parent == gid }); len(ab) > 0 {
		return entries, ab[0].Msg
	}
	return entries, ""
}

func c01Sig(f *gen.File, what string) string {
	if f.Labels["module-float"] {
		return "module-aux-float:" + what
	}
	return what
}

func c01Compare(t fataler, f *gen.File, entries []*rdb.BinEntry) bool {
	if len(entries) != len(f.Records) {
		return violation(t, "C01", c01Sig(f, "record-count"), "parser delivered %d records, file holds %d keys/scripts (labels %v)", len(entries), len(f.Records), labelList(f.Labels))
	}
	for i, want := range f.Records {
		got := entries[i]
		where := fmt.Sprintf("record %d (key %q, %s)", i, want.Key, want.Label)
		if want.IsLua {
			if got.Type != gen.OpAux || string(got.Key) != "lua" || !bytes.Equal(got.Value, want.ValBytes) {
				return violation(t, "C01", c01Sig(f, "lua-record"), "%s: script record wrong: type %#x key %q value %q want %q", where, got.Type, got.Key, got.Value, want.ValBytes)
			}
			continue
		}
		if got.DB != want.DB {
			return violation(t, "C01", c01Sig(f, "db"), "%s: db %d want %d", where, got.DB, want.DB)
		}
		if !bytes.Equal(got.Key, want.Key) {
			return violation(t, "C01", c01Sig(f, "key"), "%s: key %q", where, got.Key)
		}
		if got.Type != want.Type {
			return violation(t, "C01", c01Sig(f, "type"), "%s: type %d want %d", where, got.Type, want.Type)
		}
		if got.ExpireAt != want.ExpireAt {
			return violation(t, "C01", c01Sig(f, "expire"), "%s: expireat %d want %d", where, got.ExpireAt, want.ExpireAt)
		}
		if got.IdleTime != want.Idle || got.Freq != want.Freq {
			return violation(t, "C01", c01Sig(f, "idle-freq"), "%s: idle/freq %d/%d want %d/%d", where, got.IdleTime, got.Freq, want.Idle, want.Freq)
		}
		if wantP := gen.Payload(want.Type, want.ValBytes, gen.DumpVersion); !bytes.Equal(got.Value, wantP) {
			return violation(t, "C01", c01Sig(f, "payload:"+strings.Split(want.Label, "/")[0]), "%s: payload differs (got %d bytes, want %d): got % x want % x", where, len(got.Value), len(wantP), clip(got.Value, 48), clip(wantP, 48))
		}
		if got.RealMemberCount != 0 {
			return violation(t, "C01", c01Sig(f, "chunk-flag"), "%s: RealMemberCount %d on an unchunked value", where, got.RealMemberCount)
		}
	}
	return false
}

func clip(b []byte, n int) []byte {
	if len(b) > n {
		return b[:n]
	}
	return b
}

func c01Case(t *rapid.T) {
	f := gen.DrawFile(t, gen.FileOpts{MaxDBs: 4, MaxKeys: 8, MaxElems: 300, ModuleFloat: true})
	// the source may hand out its last bytes together with io.EOF (io.Reader allows both ways of ending)
	cr := &gen.ChunkReader{Data: f.Bytes, Sizes: gen.ChunkSizes().Draw(t, "chunks"), EOFWithData: rapid.Bool().Draw(t, "eofWithData")}
	var entries []*rdb.BinEntry
	var err error
	var res logcap.Result
	path := "loader"
	if rapid.IntRange(0, 3).Draw(t, "path") == 0 {
		path = "NewRDBLoader"
		var ab string
		entries, ab = loadViaChannel(cr, rapid.SampledFrom([]int{16, 4096}).Draw(t, "bufsz"))
		res.Completed = true
		if ab != "" {
			err = fmt.Errorf("aborted: %s", ab)
		}
	} else {
		entries, err, res = loadAll(cr)
	}
	if !res.Completed {
		violation(t, "C01", c01Sig(f, "abort"), "loader aborted: %v (labels %v)", res, labelList(f.Labels))
		return
	}
	if err != nil {
		violation(t, "C01", c01Sig(f, "load-error"), "well-formed file rejected: %v (version %d, labels %v)", err, f.Version, labelList(f.Labels))
		return
	}
	if c01Compare(t, f, entries) {
		return
	}
	if cr.Pos != len(f.Bytes) && path == "loader" {
		violation(t, "C01", "trailing", "loader consumed %d of %d bytes", cr.Pos, len(f.Bytes))
		return
	}
	special := 0
	for l := range f.Labels {
		if !strings.HasPrefix(l, "str-raw") && l != "string" && !strings.HasPrefix(l, "key-raw") {
			special++
		}
	}
	nops := 0
	for k := range f.Opcodes {
		if k != "selectdb" {
			nops++
		}
	}
	nt := len(f.Records) >= 2 && (special > 0 || nops > 0 || f.NDBs > 1)
	cls := []string{"v" + fmt.Sprint(f.Version), "path:" + path}
	for l := range f.Labels {
		cls = append(cls, "enc:"+l)
	}
	for k := range f.Opcodes {
		cls = append(cls, "op:"+k)
	}
	stats.C.Case(nt, stats.Hash(f.Bytes), cls...)
	if nt && len(f.Records) >= 4 && len(f.Bytes) < 700 {
		stats.C.Sample(fmt.Sprintf("rdb v%d, %d records, %d bytes, encodings %v, opcodes %v: % x", f.Version, len(f.Records), len(f.Bytes), labelList(f.Labels), f.Opcodes, f.Bytes))
	}
}

func TestC01(t *testing.T) { rapid.Check(t, c01Case) }

func FuzzC01(f *testing.F) { f.Fuzz(rapid.MakeFuzz(c01Case)) }

// ---- big (chunked) hashes -------------------------------------------------------------------

const chunkLimit = 16 * 1024 * 1024

// patBytes returns n deterministic bytes derived from seed.
func patBytes(seed uint32, n int) []byte {
	b := make([]byte, n)
	x := seed*2654435761 + 12345
	for i := 0; i+4 <= n; i += 4 {
		x = x*1664525 + 1013904223
		binary.LittleEndian.PutUint32(b[i:], x)
	}
	for i := n &^ 3; i < n; i++ {
		b[i] = byte(seed) + byte(i)
	}
	return b
}

type bigHash struct {
	pairBytes []byte // serialized pairs (after the length prefix)
	lenPrefix []byte // serialized pair count
	n         int    // pair count
	ends      []int  // cumulative end offset (within pairBytes) of each pair
	file      *gen.File
	keyIndex  int
	fields    [][]byte
	valSpans  [][2]int // value content spans within pairBytes
}

// drawBigHashFile builds a file: [some keys] bigkey [some keys], where the big hash crosses the chunk limit.
func drawBigHashFile(t *rapid.T) *bigHash {
	bh := &bigHash{}
	// "three" files exceed 32 MiB, the size of the read buffer the tool puts in front of a file or socket
	mode := rapid.SampledFrom([]string{"exact", "exact+1", "exact-1", "last-pair", "two", "three", "three", "random"}).Draw(t, "mode")
	if forcedBigMode != "" {
		mode = forcedBigMode // stratified tests pin the layout (set outside the property, so replay is unaffected)
	}
	// sizes of pair payloads (field+value incl. their length headers)
	var sizes []int
	unit := rapid.SampledFrom([]int{1 << 20, 1 << 19, 3 << 18, 1 << 21}).Draw(t, "unit")
	target := chunkLimit
	switch mode {
	case "two":
		target = chunkLimit + rapid.IntRange(1, 1<<20).Draw(t, "extra")
	case "three":
		target = 2*chunkLimit + rapid.IntRange(2<<20, 4<<20).Draw(t, "extra")
	case "random":
		target = chunkLimit + rapid.IntRange(-(1<<20), 6<<20).Draw(t, "extra")
	}
	sum := 0
	for sum+unit < target-64 {
		sizes = append(sizes, unit)
		sum += unit
	}
	// closing pair(s) to land relative to the limit
	rem := target - sum
	switch mode {
	case "exact":
		sizes = append(sizes, rem, 300) // cumulative == limit exactly after this pair (prefix counted below)
	case "exact+1":
		sizes = append(sizes, rem+1, 300)
	case "exact-1":
		sizes = append(sizes, rem-1, 300, 300)
	case "last-pair":
		sizes = append(sizes, rem+5) // crosses the limit on the very last pair: no split
	default:
		sizes = append(sizes, rem, 1000, 2000)
	}
	bh.n = len(sizes)
	bh.lenPrefix = gen.AppendLen(nil, uint64(bh.n), 0)
	// the parser's buffer holds the length prefix too (first chunk): compensate so "exact" is exact
	adj := len(bh.lenPrefix)
	var b []byte
	for i, sz := range sizes {
		if i == len(sizes)-1 || true {
		}
		if sz < 40 {
			sz = 40
		}
		if i == indexOfClosing(mode, len(sizes)) {
			sz -= adj
		}
		field := []byte(fmt.Sprintf("field-%06d", i))
		fb := gen.AppendRawString(nil, field)
		// value: raw string with 32-bit length header (5 bytes) so that sizes are exact
		vlen := sz - len(fb) - 5
		b = append(b, fb...)
		b = append(b, 0x80)
		b = binary.BigEndian.AppendUint32(b, uint32(vlen))
		bh.fields = append(bh.fields, field)
		bh.valSpans = append(bh.valSpans, [2]int{len(b), len(b) + vlen})
		b = append(b, patBytes(uint32(i), vlen)...)
		bh.ends = append(bh.ends, len(b))
	}
	bh.pairBytes = b
	// surrounding small keys
	pre := gen.DrawFile(t, gen.FileOpts{MaxDBs: 1, MaxKeys: 3, MaxElems: 5, NoMeta: true, NoLua: true, SmallDBs: true, SingleHint: true, NoEmpty: true, ClassicOnly: true})
	post := gen.DrawFile(t, gen.FileOpts{MaxDBs: 1, MaxKeys: 3, MaxElems: 5, NoMeta: true, NoLua: true, SmallDBs: true, SingleHint: true, NoEmpty: true, ClassicOnly: true})
	strip := func(f *gen.File) []byte { return f.Bytes[9 : len(f.Bytes)-9] }
	var body []byte
	body = append(body, strip(pre)...)
	db := uint32(rapid.IntRange(0, 15).Draw(t, "bigdb"))
	body = append(body, gen.OpSelectDB)
	body = gen.AppendLen(body, uint64(db), 0)
	rec := gen.Record{DB: db, Key: []byte("big:hash"), Type: gen.THash, Label: "hash/chunked"}
	if rapid.Bool().Draw(t, "bigexp") {
		rec.ExpireAt = rapid.Uint64Range(1, 1<<50).Draw(t, "bigexpms")
		body = append(body, gen.OpExpireMs)
		body = binary.LittleEndian.AppendUint64(body, rec.ExpireAt)
	}
	body = append(body, gen.THash)
	body = gen.AppendRawString(body, rec.Key)
	body = append(body, bh.lenPrefix...)
	body = append(body, bh.pairBytes...)
	body = append(body, strip(post)...)
	out := []byte("REDIS0009")
	out = append(out, body...)
	out = append(out, gen.OpEOF)
	out = binary.LittleEndian.AppendUint64(out, ref.CRC64(0, out))
	f := &gen.File{Version: 9, Bytes: out, Labels: map[string]bool{"hash/chunked:" + mode: true}}
	f.Records = append(f.Records, pre.Records...)
	bh.keyIndex = len(f.Records)
	f.Records = append(f.Records, rec)
	f.Records = append(f.Records, post.Records...)
	bh.file = f
	return bh
}

func indexOfClosing(mode string, n int) int {
	switch mode {
	case "exact", "exact+1":
		return n - 2
	case "exact-1":
		return n - 3
	case "last-pair":
		return n - 1
	}
	return -1
}

func c01BigCase(t *rapid.T) {
	bh := drawBigHashFile(t)
	f := bh.file
	cr := &gen.ChunkReader{Data: f.Bytes, Sizes: rapid.SampledFrom([][]int{{1 << 20}, {65536, 4096, 1 << 20}, {8192}}).Draw(t, "chunks")}
	entries, err, res := loadAll(cr)
	if !res.Completed || err != nil {
		violation(t, "C01", "chunked:load-error", "file with a %d byte hash rejected: %v %v", len(bh.pairBytes), err, res)
		return
	}
	// split entries: before, chunks, after
	want := f.Records[bh.keyIndex]
	i := bh.keyIndex
	if len(entries) < i+1 {
		violation(t, "C01", "chunked:record-count", "only %d records", len(entries))
		return
	}
	var chunks []*rdb.BinEntry
	j := i
	for j < len(entries) && bytes.Equal(entries[j].Key, want.Key) && entries[j].DB == want.DB && entries[j].Type == gen.THash {
		chunks = append(chunks, entries[j])
		j++
	}
	rest := append(append([]*rdb.BinEntry{}, entries[:i]...), entries[j:]...)
	others := &gen.File{Labels: f.Labels}
	others.Records = append(append([]gen.Record{}, f.Records[:i]...), f.Records[i+1:]...)
	if c01Compare(t, others, rest) {
		return
	}
	if len(chunks) == 0 {
		violation(t, "C01", "chunked:missing", "no record for the big hash")
		return
	}
	var cat []byte
	var members uint64
	for k, c := range chunks {
		v := c.Value
		if len(v) < 11 || v[0] != gen.THash {
			violation(t, "C01", "chunked:payload", "chunk %d: bad payload framing", k)
			return
		}
		body := v[1 : len(v)-10]
		if binary.LittleEndian.Uint16(v[len(v)-10:]) != gen.DumpVersion || binary.LittleEndian.Uint64(v[len(v)-8:]) != ref.CRC64(0, v[:len(v)-8]) {
			violation(t, "C01", "chunked:trailer", "chunk %d: version/checksum trailer wrong", k)
			return
		}
		if k == 0 {
			if c.NeedReadLen != 1 || !bytes.HasPrefix(body, bh.lenPrefix) {
				violation(t, "C01", "chunked:first", "first chunk: NeedReadLen=%d, prefix % x want % x", c.NeedReadLen, clip(body, 6), bh.lenPrefix)
				return
			}
			body = body[len(bh.lenPrefix):]
		} else if c.NeedReadLen != 0 {
			violation(t, "C01", "chunked:continuation-flag", "chunk %d has NeedReadLen=%d", k, c.NeedReadLen)
			return
		}
		// every record of the key carries the key's expiry (consumers such as decode mode print it per element)
		if c.ExpireAt != want.ExpireAt {
			violation(t, "C01", "chunked:expire", "chunk %d: expireat %d want %d", k, c.ExpireAt, want.ExpireAt)
			return
		}
		cat = append(cat, body...)
		if len(chunks) > 1 {
			members += uint64(c.RealMemberCount)
		}
	}
	if !bytes.Equal(cat, bh.pairBytes) {
		violation(t, "C01", "chunked:concat", "concatenated chunks are %d bytes, the hash's pairs are %d bytes (first difference at %d)", len(cat), len(bh.pairBytes), firstDiff(cat, bh.pairBytes))
		return
	}
	if len(chunks) > 1 && members != uint64(bh.n) {
		violation(t, "C01", "chunked:member-count", "sum of RealMemberCount %d, pairs %d", members, bh.n)
		return
	}
	if len(chunks) == 1 && chunks[0].RealMemberCount != 0 {
		violation(t, "C01", "chunked:member-count", "single record with RealMemberCount %d", chunks[0].RealMemberCount)
		return
	}
	stats.C.Case(true, stats.Hash([]byte(fmt.Sprint(len(bh.pairBytes), bh.ends[len(bh.ends)-1], len(chunks), bh.n))), "chunked", fmt.Sprintf("chunks=%d", len(chunks)))
	stats.C.Sample(fmt.Sprintf("big hash: %d pairs, %d value bytes, delivered in %d records, labels %v", bh.n, len(bh.pairBytes), len(chunks), labelList(f.Labels)))
}

func appendCRC(b []byte) []byte { return binary.LittleEndian.AppendUint64(b, ref.CRC64(0, b)) }

func firstDiff(a, b []byte) int {
	n := len(a)
	if len(b) < n {
		n = len(b)
	}
	for i := 0; i < n; i++ {
		if a[i] != b[i] {
			return i
		}
	}
	return n
}

func TestC01Big(t *testing.T) { rapid.Check(t, c01BigCase) }

// forcedBigMode pins the layout drawBigHashFile produces ("" = drawn).
var forcedBigMode string

// TestC01BigThree: only hashes of three chunks (> 32 MiB: the second cut and the read-buffer boundary are only reached there).
func TestC01BigThree(t *testing.T) {
	forcedBigMode = "three"
	defer func() { forcedBigMode = "" }()
	rapid.Check(t, c01BigCase)
}

// c01BigOther: values beyond 16 MiB that are NOT hashes (string, list of large elements, LZF string) are one record each.
func c01BigOther(t *rapid.T) {
	kind := rapid.SampledFrom([]string{"string", "list", "lzf-string", "zset"}).Draw(t, "kind")
	n := chunkLimit + rapid.IntRange(-3, 1<<20).Draw(t, "extra")
	var typ byte
	var val []byte
	switch kind {
	case "string":
		typ = gen.TString
		val = append([]byte{0x80, byte(n >> 24), byte(n >> 16), byte(n >> 8), byte(n)}, patBytes(uint32(n), n)...)
	case "lzf-string":
		typ = gen.TString
		raw := bytes.Repeat([]byte("abcdefgh"), n/8)
		c := ref.LZFCompress(raw)
		val = append([]byte{0xc3}, gen.AppendLen(nil, uint64(len(c)), 0)...)
		val = gen.AppendLen(val, uint64(len(raw)), 0)
		val = append(val, c...)
	case "list":
		typ = gen.TList
		k := rapid.IntRange(2, 6).Draw(t, "elems")
		val = gen.AppendLen(nil, uint64(k), 0)
		for i := 0; i < k; i++ {
			e := patBytes(uint32(i), n/k+1)
			val = append(val, 0x80, byte(len(e)>>24), byte(len(e)>>16), byte(len(e)>>8), byte(len(e)))
			val = append(val, e...)
		}
	default:
		typ = gen.TZSet2
		k := 20
		val = gen.AppendLen(nil, uint64(k), 0)
		for i := 0; i < k; i++ {
			e := patBytes(uint32(i), n/k+1)
			val = append(val, 0x80, byte(len(e)>>24), byte(len(e)>>16), byte(len(e)>>8), byte(len(e)))
			val = append(val, e...)
			val = binary.LittleEndian.AppendUint64(val, uint64(i)<<52)
		}
	}
	b := []byte("REDIS0009")
	b = append(b, gen.OpSelectDB, 3, typ)
	b = gen.AppendRawString(b, []byte("big:"+kind))
	b = append(b, val...)
	b = append(b, gen.TString)
	b = gen.AppendRawString(b, []byte("after"))
	av := gen.AppendRawString(nil, []byte("x"))
	b = append(b, av...)
	b = append(b, gen.OpEOF)
	f := &gen.File{Version: 9, Bytes: appendCRC(b), Labels: map[string]bool{"big:" + kind: true}, Records: []gen.Record{
		{DB: 3, Key: []byte("big:" + kind), Type: typ, ValBytes: val, Label: "big/" + kind},
		{DB: 3, Key: []byte("after"), Type: gen.TString, ValBytes: av, Label: "string"}}}
	entries, err, res := loadAll(&gen.ChunkReader{Data: f.Bytes, Sizes: []int{1 << 20, 4096, 65536}})
	if err != nil || !res.Completed {
		violation(t, "C01", "big-value:load-error", "file with a %d byte %s rejected: %v %v", len(val), kind, err, res)
		return
	}
	if c01Compare(t, f, entries) {
		return
	}
	stats.C.Case(true, stats.HashS(fmt.Sprint(kind, n)), "big-non-hash:"+kind)
	stats.C.Sample(fmt.Sprintf("%s value of %d serialized bytes (beyond the 16 MiB chunk limit), one record, next key intact", kind, len(val)))
}

func TestC01BigOther(t *testing.T) { rapid.Check(t, c01BigOther) }

func TestC01Regress(t *testing.T) {
	// fixed: module-aux FLOAT is 4 binary bytes; the key after it must be delivered intact
	b := []byte("REDIS0009")
	b = append(b, gen.OpModuleAux)
	b = gen.AppendLen(b, 1<<40, 0)
	b = gen.AppendLen(b, 3, 0) // FLOAT
	b = append(b, 0x00, 0x00, 0x80, 0x3f)
	b = gen.AppendLen(b, 2, 0) // UINT
	b = gen.AppendLen(b, 7, 0)
	b = gen.AppendLen(b, 0, 0) // EOF
	b = append(b, gen.OpSelectDB, 0, gen.TString)
	b = gen.AppendRawString(b, []byte("k"))
	val := gen.AppendRawString(nil, []byte("v"))
	b = append(b, val...)
	b = append(b, gen.OpEOF)
	b = binary.LittleEndian.AppendUint64(b, ref.CRC64(0, b))
	f := &gen.File{Labels: map[string]bool{"module-float": true}, Records: []gen.Record{{DB: 0, Key: []byte("k"), Type: gen.TString, ValBytes: val, Label: "string"}}}
	entries, err, res := loadAll(bytes.NewReader(b))
	if err != nil || !res.Completed {
		violation(t, "C01", "module-aux-float:load-error", "file with a module-aux FLOAT value rejected: %v %v", err, res)
		return
	}
	c01Compare(t, f, entries)
}
