module verif/harness

go 1.23

require (
	github.com/alibaba/RedisShake v0.0.0
	github.com/cupcake/rdb v0.0.0-20161107195141-43ba34106c76
	github.com/garyburd/redigo v1.6.2
	github.com/vinllen/redis-go-cluster v1.0.1-0.20200724054240-c957918bbc61
	golang.org/x/sync v0.0.0-20181221193216-37e7f081c4d4
	pgregory.net/rapid v1.3.0
)

require (
	github.com/FZambia/go-sentinel v0.0.0-20171204085413-76bd05e8e22f // indirect
	github.com/beorn7/perks v1.0.0 // indirect
	github.com/golang/protobuf v1.3.2-0.20190517061210-b285ee9cfc6c // indirect
	github.com/gugemichael/nimo4go v0.0.0-20190904073057-32795d80f83a // indirect
	github.com/matttproud/golang_protobuf_extensions v1.0.2-0.20181231171920-c182affec369 // indirect
	github.com/nightlyone/lockfile v0.0.0-20180618180623-0ad87eef1443 // indirect
	github.com/pkg/errors v0.8.0 // indirect
	github.com/prometheus/client_golang v1.0.1-0.20190617182757-3d8379da8fc2 // indirect
	github.com/prometheus/client_model v0.0.0-20190129233127-fd36f4220a90 // indirect
	github.com/prometheus/common v0.6.0 // indirect
	github.com/prometheus/procfs v0.0.3-0.20190614152826-90b65b633401 // indirect
	gopkg.in/natefinch/lumberjack.v2 v2.0.0-20170531160350-a96e63847dc3 // indirect
)

replace github.com/alibaba/RedisShake => /repo/src
