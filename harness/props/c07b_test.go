//go:build verif

package props

import (
	"bufio"
	"bytes"
	"fmt"
	"strings"
	"testing"
	"time"

	conf "github.com/alibaba/RedisShake/redis-shake/configure"
	"pgregory.net/rapid"

	"verif/harness/gen"
	"verif/harness/logcap"
	"verif/harness/mredis"
	"verif/harness/stats"
)

// c07Chunked: a hash beyond the 16 MiB chunk limit restored by several workers under a generated schedule.
func c07Chunked(t *rapid.T) {
	bh := drawBigHashFile(t)
	parallel := rapid.IntRange(2, 4).Draw(t, "parallel")
	policy := rapid.SampledFrom([]string{"none", "rewrite", "rewrite"}).Draw(t, "policy")
	existing := policy == "rewrite" && rapid.Bool().Draw(t, "existing")
	schedule := rapid.SliceOfN(rapid.IntRange(0, 7), 1, 16).Draw(t, "schedule")
	c07ChunkedCheck(t, bh, parallel, policy, existing, schedule)
}

// delayDelGate holds the first chunk's DEL until another connection has executed an HSET (or 3 s passed):
// the interleaving of D14 (repaired by 58b799a), forced deterministically.
func delayDelGate(srv *mredis.Server) func(c *mredis.ConnState, argv [][]byte) {
	return func(c *mredis.ConnState, argv [][]byte) {
		if !strings.EqualFold(string(argv[0]), "del") {
			return
		}
		for dl := time.Now().Add(3 * time.Second); time.Now().Before(dl); time.Sleep(2 * time.Millisecond) {
			for _, cm := range srv.LogCopy() {
				if cm.Name == "hset" && cm.Conn != c.ID {
					return
				}
			}
		}
	}
}

func c07ChunkedCheck(t fataler, bh *bigHash, parallel int, policy string, existing bool, schedule []int) {
	o := &conf.Options
	o.Parallel, o.TargetDB, o.KeyExists, o.BigKeyThreshold, o.TargetVersion, o.TargetReplace = parallel, -1, policy, 500*1024*1024, "5.0.7", true
	defer func() { o.Parallel, o.KeyExists = 1, "none" }()
	defer quietLog()()
	srv := newTarget(targetKinds[3])
	defer srv.Close()
	rec := bh.file.Records[bh.keyIndex]
	for _, r := range bh.file.Records {
		if r.Logical != nil {
			srv.Register(gen.Payload(r.Type, r.ValBytes, gen.DumpVersion), *r.Logical)
		}
	}
	hv := gen.Value{Kind: "hash"}
	want := &mredis.Entry{Kind: "hash", Hash: map[string]string{}}
	for i, f := range bh.fields {
		v := bh.pairBytes[bh.valSpans[i][0]:bh.valSpans[i][1]]
		hv.Hash = append(hv.Hash, gen.HE{Field: f, Value: v})
		want.Hash[string(f)] = string(v)
	}
	srv.Register(gen.Payload(gen.THash, append(append([]byte{}, bh.lenPrefix...), bh.pairBytes...), gen.DumpVersion), hv)
	if existing {
		srv.Put(int(rec.DB), string(rec.Key), &mredis.Entry{Kind: "hash", Hash: map[string]string{"stale-field": "x"}})
	}
	sch := newScheduler(schedule)
	if schedule == nil {
		srv.Gate = delayDelGate(srv)
	} else {
		srv.Gate = sch.gate
		go sch.run(parallel, srv.NumConns)
	}
	defer close(sch.stop)
	ds := newSyncer(0)
	var serr error
	res := logcap.RunTree(func() {
		serr = ds.VerifSyncRDBFile(bufio.NewReaderSize(bytes.NewReader(bh.file.Bytes), 65536), []string{srv.Addr()}, "auth", tgtSentinel, int64(len(bh.file.Bytes)), false)
	})
	desc := fmt.Sprintf("chunked hash of %d pairs / %d bytes (%v), parallel=%d key_exists=%s existing=%v schedule=%v release-order=%v", bh.n, len(bh.pairBytes), labelList(bh.file.Labels), parallel, policy, existing, schedule, clipInts(sch.order, 60))
	if !res.Completed || serr != nil {
		violation(t, "C07", "chunked:failed:"+policy, "%s: full sync failed: err=%v %v", desc, serr, res)
		return
	}
	got := srv.Get(int(rec.DB), string(rec.Key))
	if got == nil {
		violation(t, "C07", "chunked:key-missing:"+policy, "%s: the hash is not on the target at return time", desc)
		return
	}
	if d := got.Same(want); d != "" {
		violation(t, "C07", "chunked:fields-lost-or-stale:"+policy, "%s: %s", desc, d)
		return
	}
	conns := map[int]bool{}
	for _, cm := range srv.LogCopy() {
		if cm.Name == "hset" {
			conns[cm.Conn] = true
		}
	}
	stats.C.Case(len(conns) >= 2, stats.HashS(desc), "chunked-parallel", fmt.Sprintf("chunk-conns=%d", len(conns)))
	if len(conns) >= 2 {
		stats.C.Sample(desc)
	}
}

func clipInts(a []int, n int) []int {
	if len(a) > n {
		return a[:n]
	}
	return a
}

func TestC07Chunked(t *testing.T) { rapid.Check(t, c07Chunked) }

// handBigHash builds, without a generator, a file holding one hash of n pairs of ~1 MiB.
func handBigHash(n int) *bigHash {
	bh := &bigHash{n: n, lenPrefix: gen.AppendLen(nil, uint64(n), 0)}
	var b []byte
	for i := 0; i < n; i++ {
		field := []byte(fmt.Sprintf("field-%06d", i))
		b = gen.AppendRawString(b, field)
		vlen := 1 << 20
		b = append(b, 0x80, byte(vlen>>24), byte(vlen>>16), byte(vlen>>8), byte(vlen))
		bh.fields = append(bh.fields, field)
		bh.valSpans = append(bh.valSpans, [2]int{len(b), len(b) + vlen})
		b = append(b, patBytes(uint32(i), vlen)...)
		bh.ends = append(bh.ends, len(b))
	}
	bh.pairBytes = b
	body := []byte("REDIS0009")
	body = append(body, gen.OpSelectDB, 0, gen.THash)
	body = gen.AppendRawString(body, []byte("big:hash"))
	body = append(body, bh.lenPrefix...)
	body = append(body, b...)
	body = append(body, gen.OpEOF)
	bh.file = &gen.File{Version: 9, Bytes: appendCRC(body), Labels: map[string]bool{"hash/chunked:hand": true},
		Records: []gen.Record{{DB: 0, Key: []byte("big:hash"), Type: gen.THash, Label: "hash/chunked"}}}
	return bh
}

// D14 (repaired by 58b799a; kept as a regression): the chunks of one hash go to different workers; under key_exists=rewrite the first
// chunk's DEL can be executed after another worker has already written fields of a later chunk.
func TestC07ChunkedRegress(t *testing.T) {
	reportKnown(t, "C07", "chunked:fields-lost-or-stale:rewrite", func(ft fataler) {
		// the first chunk's DEL is held at the target until another worker has written a field of the later chunk
		c07ChunkedCheck(ft, handBigHash(18), 3, "rewrite", true, nil)
	})
}
