//go:build verif

package props

import (
	"fmt"
	"sort"
	"strconv"
	"strings"
	"testing"

	"github.com/alibaba/RedisShake/redis-shake/checkpoint"
	utils "github.com/alibaba/RedisShake/redis-shake/common"
	"pgregory.net/rapid"

	"verif/harness/logcap"
	"verif/harness/mredis"
	"verif/harness/stats"
)

// the first six can be "own"; the others only ever appear as foreign sources (addresses that END with an own address included)
var c14Sources = []string{"h:637", "h:6379", "h:63790", "10.0.0.1:6379", "10.0.0.1:63791", "10.0.0.11:6379", "other:1", "xh:637", "110.0.0.1:6379", "my-h:6379"}

// own addresses also include host names with hyphens (the field names are "<address>-runid" etc.)
var c14Own = append(append([]string{}, c14Sources[:6]...), "redis-master.prod:6379", "a-b:6379")

type ckWrite struct {
	src      string
	db       int
	offset   int64
	runid    string // "" = not written
	version  string // "" = not written
	clearRun bool   // the run id field was removed afterwards (earlier ClearCheckpoint)
	noOffset bool   // only run id / version were written (the offset of this source is absent in that db)
}

type c14State struct {
	own     string
	name    string
	writes  []ckWrite
	userDBs []int
}

func drawC14(t *rapid.T) *c14State {
	st := &c14State{}
	st.own = rapid.SampledFrom(c14Own).Draw(t, "own")
	st.name = utils.CheckpointKey
	if rapid.IntRange(0, 3).Draw(t, "suffix") == 0 {
		st.name = utils.CheckpointKey + "-" + rapid.StringMatching(`[a-z]{4}`).Draw(t, "sfx")
	}
	n := rapid.IntRange(0, 10).Draw(t, "nwrites")
	next := map[string]int64{}
	seen := map[string]bool{}
	for i := 0; i < n; i++ {
		w := ckWrite{}
		if rapid.IntRange(0, 2).Draw(t, "ownWrite") != 0 {
			w.src = st.own
		} else {
			w.src = rapid.SampledFrom(c14Sources).Draw(t, "src")
		}
		w.db = rapid.IntRange(0, 15).Draw(t, "db")
		if _, started := next[w.src]; !started && rapid.IntRange(0, 3).Draw(t, "fromZero") == 0 {
			next[w.src] = 0 // a checkpoint at offset 0 is a checkpoint like any other
		} else {
			next[w.src] += int64(rapid.IntRange(1, 100000).Draw(t, "step"))
		}
		if rapid.IntRange(0, 9).Draw(t, "bigoff") == 0 {
			next[w.src] += 1 << 33
		}
		w.offset = next[w.src]
		k := fmt.Sprint(w.src, "/", w.db)
		if !seen[k] || rapid.IntRange(0, 5).Draw(t, "rewriteRun") == 0 {
			// the sender stores run id + version with the first checkpoint it writes into a db
			w.runid = rapid.StringMatching(`[0-9a-f]{40}`).Draw(t, "runid")
			w.version = rapid.SampledFrom([]string{"1", "1", "1", "1", "0", "2", ""}).Draw(t, "version")
			if rapid.IntRange(0, 7).Draw(t, "norunid") == 0 {
				w.runid = "" // partially written checkpoint
			}
		}
		if !seen[k] && w.runid != "" && rapid.IntRange(0, 11).Draw(t, "noOffset") == 5 {
			w.noOffset = true // a partially written / partially cleared checkpoint: run id and version, no offset
		}
		seen[k] = true
		w.clearRun = !w.noOffset && rapid.IntRange(0, 9).Draw(t, "cleared") == 0
		st.writes = append(st.writes, w)
	}
	for i := rapid.IntRange(0, 3).Draw(t, "nuser"); i > 0; i-- {
		st.userDBs = append(st.userDBs, rapid.IntRange(0, 15).Draw(t, "userdb"))
	}
	return st
}

type ckView struct {
	offset  int64
	hasOff  bool
	runid   string
	hasRun  bool
	version string
	hasVer  bool
}

// apply builds the target state and returns, per db, the own-source view.
func (st *c14State) apply(srv *mredis.Server) map[int]*ckView {
	for _, db := range st.userDBs {
		srv.Put(db, fmt.Sprintf("user:%d", db), &mredis.Entry{Kind: "string", Str: []byte("data")})
	}
	hashes := map[int]map[string]string{}
	for _, w := range st.writes {
		h := hashes[w.db]
		if h == nil {
			h = map[string]string{}
			hashes[w.db] = h
		}
		if w.runid != "" {
			h[w.src+"-"+utils.CheckpointRunId] = w.runid
		}
		if w.version != "" {
			h[w.src+"-"+utils.CheckpointVersion] = w.version
		}
		if !w.noOffset {
			h[w.src+"-"+utils.CheckpointOffset] = strconv.FormatInt(w.offset, 10)
		}
		if w.clearRun {
			delete(h, w.src+"-"+utils.CheckpointRunId)
		}
	}
	views := map[int]*ckView{}
	for db, h := range hashes {
		cp := map[string]string{}
		for k, v := range h {
			cp[k] = v
		}
		srv.Put(db, st.name, &mredis.Entry{Kind: "hash", Hash: cp})
		v := &ckView{}
		if o, ok := h[st.own+"-"+utils.CheckpointOffset]; ok {
			v.offset, _ = strconv.ParseInt(o, 10, 64)
			v.hasOff = true
		}
		v.runid, v.hasRun = h[st.own+"-"+utils.CheckpointRunId]
		v.version, v.hasVer = h[st.own+"-"+utils.CheckpointVersion]
		views[db] = v
	}
	return views
}

func c14Sig(st *c14State, what string) string {
	for _, w := range st.writes {
		if w.src != st.own && (strings.HasPrefix(w.src, st.own) || strings.HasPrefix(st.own, w.src)) {
			return what + ":prefix-related-sources"
		}
	}
	return what
}

func c14Run(t *rapid.T) { c14Check(t, drawC14(t)) }

func c14Check(t fataler, st *c14State) {
	srv := mredis.New()
	srv.Password = tgtSentinel
	srv.Listen()
	defer srv.Close()
	views := st.apply(srv)
	// reference resume rule (from the statement)
	wantOffset, wantDB, wantRun := int64(-1), 0, ""
	newestDB := -1
	for db, v := range views {
		if v.hasOff && v.offset > wantOffset {
			wantOffset, newestDB = v.offset, db
		}
	}
	refuse := false
	if newestDB >= 0 {
		v := views[newestDB]
		ver := 0
		if v.hasVer {
			ver, _ = strconv.Atoi(v.version)
		}
		if ver < utils.FcvCheckpoint.FeatureCompatibleVersion {
			refuse = true
		}
		if v.hasRun {
			wantRun, wantDB = v.runid, newestDB
		} else {
			wantRun, wantDB = "?", -1
		}
	}
	before := snapshotDBs(srv)
	var runid string
	var offset int64
	var db int
	var err error
	res := logcap.Run(func() {
		runid, offset, db, err = checkpoint.LoadCheckpoint(0, st.own, []string{srv.Addr()}, "auth", tgtSentinel, st.name, false, false)
	})
	desc := fmt.Sprintf("own=%q name=%q writes=%+v userdbs=%v", st.own, st.name, st.writes, st.userDBs)
	if !res.Completed {
		violation(t, "C14", c14Sig(st, "abort"), "%s: LoadCheckpoint aborted: %v", desc, res)
		return
	}
	switch {
	case refuse:
		if err == nil {
			violation(t, "C14", c14Sig(st, "old-version-accepted"), "%s: newest own checkpoint (db %d) has version %q, yet resume was accepted: runid=%q offset=%d db=%d", desc, newestDB, views[newestDB].version, runid, offset, db)
			return
		}
	case err != nil:
		violation(t, "C14", c14Sig(st, "refused"), "%s: LoadCheckpoint failed: %v (expected runid=%q offset=%d db=%d)", desc, err, wantRun, wantOffset, wantDB)
		return
	case newestDB < 0:
		if offset != -1 {
			violation(t, "C14", c14Sig(st, "no-checkpoint-offset"), "%s: no checkpoint of this source exists, yet offset %d (runid %q db %d) was returned; want -1", desc, offset, runid, db)
			return
		}
	default:
		if offset != wantOffset || runid != wantRun || db != wantDB {
			violation(t, "C14", c14Sig(st, "wrong-checkpoint"), "%s: returned runid=%q offset=%d db=%d, want runid=%q offset=%d db=%d", desc, runid, offset, db, wantRun, wantOffset, wantDB)
			return
		}
	}
	if !refuse {
		// stale own checkpoints removed everywhere but in the chosen db; nothing else touched
		after := snapshotDBs(srv)
		for dbn, keys := range before {
			for key, fields := range keys {
				for f, val := range fields {
					own := key == st.name && (f == st.own+"-"+utils.CheckpointRunId || f == st.own+"-"+utils.CheckpointOffset)
					got, present := after[dbn][key][f]
					if own && dbn != wantDB || own && newestDB < 0 {
						if present && newestDB >= 0 {
							violation(t, "C14", c14Sig(st, "stale-not-removed"), "%s: own field %q still in db %d after load (chosen db %d)", desc, f, dbn, wantDB)
							return
						}
						continue
					}
					if !present || got != val {
						violation(t, "C14", c14Sig(st, "foreign-data-touched"), "%s: field %q of key %q in db %d changed from %q to %q (present=%v)", desc, f, key, dbn, val, got, present)
						return
					}
				}
			}
		}
	}
	ownDBs, prefixRel := 0, false
	for _, v := range views {
		if v.hasOff {
			ownDBs++
		}
	}
	prefixRel = strings.HasSuffix(c14Sig(st, "x"), "prefix-related-sources")
	cls := []string{"load"}
	if refuse {
		cls = append(cls, "refused-old-version")
	}
	if newestDB < 0 {
		cls = append(cls, "no-own-checkpoint")
	} else if wantRun == "?" {
		cls = append(cls, "newest-without-runid")
	}
	stats.C.Case(prefixRel && ownDBs >= 2, stats.HashS(desc), cls...)
	if prefixRel && ownDBs >= 2 && len(st.writes) <= 5 {
		stats.C.Sample(desc)
	}
}

// snapshotDBs: db -> key -> field -> value (strings as field "")
func snapshotDBs(srv *mredis.Server) map[int]map[string]map[string]string {
	srv.Lock()
	defer srv.Unlock()
	out := map[int]map[string]map[string]string{}
	var dbs []int
	for n := range srv.DBs {
		dbs = append(dbs, n)
	}
	sort.Ints(dbs)
	for _, n := range dbs {
		out[n] = map[string]map[string]string{}
		for k, e := range srv.DBs[n] {
			m := map[string]string{}
			if e.Kind == "hash" {
				for f, v := range e.Hash {
					m[f] = v
				}
			} else {
				m[""] = string(e.Str)
			}
			out[n][k] = m
		}
	}
	return out
}

func TestC14(t *testing.T) { rapid.Check(t, c14Run) }

func TestC14Regress(t *testing.T) {
	// fixed: another source whose address extends ours must be ignored
	c14Check(t, &c14State{own: "h:637", name: utils.CheckpointKey, writes: []ckWrite{
		{src: "h:637", db: 1, offset: 100, runid: "aaaa", version: "1"},
		{src: "h:6379", db: 2, offset: 900, runid: "bbbb", version: "1"},
	}})
	c14Check(t, &c14State{own: "h:637", name: utils.CheckpointKey, writes: []ckWrite{
		{src: "h:6379", db: 2, offset: 900, runid: "bbbb", version: "1"},
	}})
}
