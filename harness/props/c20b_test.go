//go:build verif

package props

import (
	"fmt"
	"sort"
	"strings"
	"testing"

	conf "github.com/alibaba/RedisShake/redis-shake/configure"
	"github.com/alibaba/RedisShake/redis-shake/dbSync"
	"github.com/alibaba/RedisShake/redis-shake/dbSync/slot"
	"golang.org/x/sync/semaphore"
	"pgregory.net/rapid"

	"verif/harness/logcap"
	"verif/harness/mredis"
	"verif/harness/stats"
)

// c20Syncer: the syncer's own use of re-discovery at (re)start: across a generated sequence of
// fail-overs the syncer must always end up with the current master as source and every other
// known node as replica (so that a later fail-back can still be followed).
func c20Syncer(t *rapid.T) {
	n := rapid.IntRange(2, 4).Draw(t, "nodes")
	var srvs []*mredis.Server
	var addrs []string
	for i := 0; i < n; i++ {
		s := mredis.New()
		s.Password = srcSentinel
		s.Role = "slave"
		s.Listen()
		defer s.Close()
		srvs = append(srvs, s)
		addrs = append(addrs, s.Addr())
	}
	conf.Options.SourceType = conf.RedisTypeCluster
	defer func() { conf.Options.SourceType = conf.RedisTypeStandalone }()
	node := &slot.SyncNode{Id: 0, Source: addrs[0], Slaves: append([]string{}, addrs[1:]...), SourcePassword: srcSentinel, TargetPassword: tgtSentinel,
		Target: []string{"127.0.0.1:1"}, SlotLeftBoundary: 0, SlotRightBoundary: 16383}
	ds := dbSync.NewDbSyncer(node, 9320, semaphore.NewWeighted(1))
	steps := rapid.IntRange(1, 5).Draw(t, "steps")
	var history []string
	prev := -1
	changes := 0
	for st := 0; st < steps; st++ {
		m := rapid.IntRange(0, n-1).Draw(t, "master")
		if m != prev {
			changes++
		}
		prev = m
		for i, s := range srvs {
			s.Lock()
			switch {
			case i == m:
				s.Role = "master"
			case rapid.IntRange(0, 4).Draw(t, "noRole") == 0:
				s.Role = "none"
			default:
				s.Role = "slave"
			}
			s.Unlock()
		}
		history = append(history, fmt.Sprintf("master=node%d", m))
		res := logcap.Run(func() { ds.VerifUpdateSlotTopology() })
		if !res.Completed {
			violation(t, "C20", "syncer-topology:abort", "after fail-overs %v: topology update aborted although node%d reports master: %v", history, m, res)
			return
		}
		got := ds.VerifNode()
		all := append([]string{got.Source}, got.Slaves...)
		sort.Strings(all)
		want := append([]string{}, addrs...)
		sort.Strings(want)
		if got.Source != addrs[m] || strings.Join(all, ",") != strings.Join(want, ",") {
			violation(t, "C20", "syncer-topology:node-list", "after fail-overs %v (nodes %v): syncer holds source %q replicas %v; want source %q and every other node as replica", history, addrs, got.Source, got.Slaves, addrs[m])
			return
		}
	}
	stats.C.Case(changes >= 2, stats.HashS(fmt.Sprint(n, history)), "syncer-topology")
	if changes >= 3 {
		stats.C.Sample(fmt.Sprintf("syncer over %d nodes, fail-over sequence %v", n, history))
	}
}

func TestC20Syncer(t *testing.T) { rapid.Check(t, c20Syncer) }
