//go:build verif

package props

import (
	"bytes"
	"fmt"
	"math"
	"strings"
	"testing"

	"github.com/alibaba/RedisShake/pkg/rdb"
	"pgregory.net/rapid"

	"verif/harness/gen"
	"verif/harness/logcap"
	"verif/harness/stats"
)

// scores over all float64 classes for the EncodeDump round trip (NaN allowed here)
func anyScore() *rapid.Generator[float64] {
	return rapid.OneOf(gen.Score(), rapid.Map(rapid.Uint64(), math.Float64frombits),
		rapid.SampledFrom([]float64{math.NaN(), math.Copysign(0, -1), math.SmallestNonzeroFloat64, -math.SmallestNonzeroFloat64, 0.1 + 0.2, 1.0 / 3.0, 9007199254740993}))
}

// c12EncodeDecode: DecodeDump(EncodeDump(v)) == v with order.
func c12EncodeDecode(t *rapid.T) {
	v := gen.DrawValue(t, "", rapid.SampledFrom([]int{12, 12, 70, 300}).Draw(t, "max"))
	if v.Kind == "zset" {
		for i := range v.ZSet {
			if rapid.IntRange(0, 2).Draw(t, "anyscore") == 0 {
				v.ZSet[i].Score = anyScore().Draw(t, "score")
			}
		}
	}
	var p []byte
	var o interface{}
	var err, err2 error
	res := logcap.Run(func() {
		p, err = rdb.EncodeDump(toObj(v))
		if err == nil {
			o, err2 = rdb.DecodeDump(p)
		}
	})
	if !res.Completed || err != nil || err2 != nil {
		violation(t, "C12", "encode-decode-error:"+v.Kind, "%s value: %v encode err=%v decode err=%v", v.Kind, res, err, err2)
		return
	}
	if d := sameObj(v, o, true); d != "" {
		violation(t, "C12", "encode-decode:"+v.Kind, "DecodeDump(EncodeDump(v)) != v: %s", d)
		return
	}
	stats.C.Case(v.Len() >= 2, stats.Hash(p), "encode-decode:"+v.Kind)
	if v.Len() >= 3 && len(p) < 100 {
		stats.C.Sample(fmt.Sprintf("EncodeDump/DecodeDump %s of %d elements: % x", v.Kind, v.Len(), p))
	}
}

func c12Sig(labels map[string]bool, enc gen.Enc, what string) string {
	switch {
	case labels["zipmap-biglen"]:
		return what + ":zipmap-biglen"
	case labels["zipmap-item253"]:
		return what + ":zipmap-item253"
	case labels["zipmap-len254"]:
		return what + ":zipmap-len254"
	}
	return what + ":" + enc.Label
}

// c12Compact: decoding a payload in any compact encoding gives the logical value it was built from.
func c12Compact(t *rapid.T) {
	v := gen.DrawValue(t, rapid.SampledFrom([]string{"string", "list", "set", "zset", "hash", "list", "hash", "zset"}).Draw(t, "kind"), rapid.SampledFrom([]int{12, 12, 70, 300}).Draw(t, "max"))
	if v.Kind == "hash" && rapid.IntRange(0, 5).Draw(t, "bigitem") == 0 && len(v.Hash) > 0 {
		// zipmap/ziplist items beyond the one-byte length forms
		v.Hash[0].Value = bytes.Repeat([]byte("v"), rapid.SampledFrom([]int{252, 253, 254, 255, 300, 70000}).Draw(t, "biglen"))
	}
	labels := map[string]bool{}
	enc := gen.EncodeValue(t, v, labels)
	p := enc.Payload()
	if rapid.IntRange(0, 2).Draw(t, "viaParser") == 0 {
		// the payload as the tool's own parser emits it for a one-key file holding this value
		b := []byte("REDIS0009")
		b = append(b, gen.OpSelectDB, 0, enc.Type)
		b = gen.AppendRawString(b, []byte("k"))
		b = append(b, enc.Bytes...)
		b = append(b, gen.OpEOF)
		entries, lerr, lres := loadAll(&gen.ChunkReader{Data: appendCRC(b), Sizes: gen.ChunkSizes().Draw(t, "chunks")})
		if lerr != nil || !lres.Completed || len(entries) != 1 {
			violation(t, "C12", c12Sig(labels, enc, "parser-error"), "one-key file with a %s value rejected by the parser: %v %v", enc.Label, lerr, lres)
			return
		}
		p = entries[0].Value
		labels["via-parser"] = true
	}
	var o interface{}
	var err error
	res := logcap.Run(func() { o, err = rdb.DecodeDump(p) })
	if !res.Completed || err != nil {
		violation(t, "C12", c12Sig(labels, enc, "decode-error"), "payload of %s (%v) not decoded: %v err=%v: % x", enc.Label, labelList(labels), res, err, clip(p, 80))
		return
	}
	if d := sameObj(v, o, v.Kind == "list"); d != "" {
		violation(t, "C12", c12Sig(labels, enc, "decode-value"), "payload of %s (%v) decodes to another value: %s", enc.Label, labelList(labels), d)
		return
	}
	cls := []string{"compact:" + enc.Label}
	for l := range labels {
		cls = append(cls, "enc:"+l)
	}
	nt := v.Len() >= 2 && !strings.HasSuffix(enc.Label, "/linked") && !strings.HasSuffix(enc.Label, "/hashtable")
	stats.C.Case(nt, stats.Hash(p), cls...)
	if nt && len(p) < 90 {
		stats.C.Sample(fmt.Sprintf("%s %v: % x", enc.Label, labelList(labels), p))
	}
}

// c12Entry: BinEntry -> ObjEntry -> BinEntry keeps the metadata and the value.
func c12Entry(t *rapid.T) {
	v := gen.DrawValue(t, "", 20)
	labels := map[string]bool{}
	enc := gen.EncodeValue(t, v, labels)
	be := &rdb.BinEntry{DB: uint32(rapid.IntRange(0, 70000).Draw(t, "db")), Key: gen.Elem().Draw(t, "key"), Type: enc.Type, Value: enc.Payload(),
		ExpireAt: rapid.Uint64().Draw(t, "exp"), RealMemberCount: 0, NeedReadLen: 1}
	oe, err := be.ObjEntry()
	if err != nil {
		violation(t, "C12", "entry-decode:"+enc.Label, "ObjEntry: %v", err)
		return
	}
	be2, err := oe.BinEntry()
	if err != nil {
		violation(t, "C12", "entry-encode:"+enc.Label, "BinEntry: %v", err)
		return
	}
	if be2.DB != be.DB || !bytes.Equal(be2.Key, be.Key) || be2.Type != be.Type || be2.ExpireAt != be.ExpireAt {
		violation(t, "C12", "entry-meta", "metadata changed: %+v -> %+v", *be, *be2)
		return
	}
	o, err := rdb.DecodeDump(be2.Value)
	if err != nil {
		violation(t, "C12", "entry-redecode:"+enc.Label, "re-encoded payload does not decode: %v", err)
		return
	}
	if d := sameObj(v, o, v.Kind == "list"); d != "" {
		violation(t, "C12", "entry-value:"+enc.Label, "value changed through ObjEntry/BinEntry: %s", d)
		return
	}
	stats.C.Case(v.Len() >= 2, stats.Hash(be.Value), "entry-conversion")
}

// c12File: NewEncoder file -> NewLoader gives back the same (db, key, expiry, value) list; footer verifies.
func c12File(t *rapid.T) {
	type item struct {
		db  uint32
		key []byte
		exp uint64
		v   gen.Value
	}
	n := rapid.IntRange(0, 10).Draw(t, "n")
	var items []item
	var buf bytes.Buffer
	var encErr error
	for i := 0; i < n; i++ {
		it := item{db: uint32(rapid.SampledFrom([]int{0, 0, 1, 2, 15, 63, 64, 16383, 16384, 70000}).Draw(t, "db")), key: gen.Elem().Draw(t, "key"), v: gen.DrawValue(t, "", 12)}
		if rapid.Bool().Draw(t, "hasexp") {
			it.exp = rapid.Uint64Range(1, 1<<62).Draw(t, "exp")
		}
		if it.v.Kind == "zset" && len(it.v.ZSet) > 0 && rapid.IntRange(0, 2).Draw(t, "anyScore") == 0 {
			// every float64 class, NaN and negative zero included (the statement names them)
			it.v.ZSet[rapid.IntRange(0, len(it.v.ZSet)-1).Draw(t, "which")].Score = anyScore().Draw(t, "score")
		}
		items = append(items, it)
	}
	res := logcap.Run(func() {
		enc := rdb.NewEncoder(&buf)
		if encErr = enc.EncodeHeader(); encErr != nil {
			return
		}
		for _, it := range items {
			if encErr = enc.EncodeObject(it.db, it.key, it.exp, toObj(it.v)); encErr != nil {
				return
			}
		}
		encErr = enc.EncodeFooter()
	})
	if !res.Completed || encErr != nil {
		violation(t, "C12", "file-encode", "encoder failed: %v %v", res, encErr)
		return
	}
	entries, err, lres := loadAll(&gen.ChunkReader{Data: buf.Bytes(), Sizes: gen.ChunkSizes().Draw(t, "chunks")})
	if !lres.Completed || err != nil {
		violation(t, "C12", "file-load", "file written by the encoder is rejected: %v %v: % x", err, lres, clip(buf.Bytes(), 120))
		return
	}
	if len(entries) != len(items) {
		violation(t, "C12", "file-count", "wrote %d objects, loaded %d", len(items), len(entries))
		return
	}
	dbs := map[uint32]bool{}
	for i, it := range items {
		e := entries[i]
		dbs[it.db] = true
		if e.DB != it.db || !bytes.Equal(e.Key, it.key) || e.ExpireAt != it.exp {
			violation(t, "C12", "file-meta", "object %d: wrote db=%d key=%q exp=%d, loaded db=%d key=%q exp=%d", i, it.db, it.key, it.exp, e.DB, e.Key, e.ExpireAt)
			return
		}
		o, err := rdb.DecodeDump(e.Value)
		if err != nil {
			violation(t, "C12", "file-value-decode", "object %d: %v", i, err)
			return
		}
		if d := sameObj(it.v, o, true); d != "" {
			violation(t, "C12", "file-value", "object %d (%s): %s", i, it.v.Kind, d)
			return
		}
	}
	stats.C.Case(len(items) >= 3 && len(dbs) >= 2, stats.Hash(buf.Bytes()), "file-roundtrip")
	if len(items) >= 3 && len(dbs) >= 2 && buf.Len() < 200 {
		stats.C.Sample(fmt.Sprintf("encoder file with %d objects in %d dbs: % x", len(items), len(dbs), buf.Bytes()))
	}
}

func TestC12(t *testing.T) {
	t.Run("encdec", func(t *testing.T) { rapid.Check(t, c12EncodeDecode) })
	t.Run("compact", func(t *testing.T) { rapid.Check(t, c12Compact) })
	t.Run("entry", func(t *testing.T) { rapid.Check(t, c12Entry) })
	t.Run("file", func(t *testing.T) { rapid.Check(t, c12File) })
}

func FuzzC12(f *testing.F) { f.Fuzz(rapid.MakeFuzz(c12Compact)) }

// handZipmap builds a zipmap payload without the generator (regression inputs of fixed findings).
func handZipmap(zmlen byte, pairs [][2][]byte) []byte {
	zl := func(b []byte, n int) []byte {
		if n < 254 {
			return append(b, byte(n))
		}
		return append(b, 254, byte(n), byte(n>>8), byte(n>>16), byte(n>>24))
	}
	blob := []byte{zmlen}
	for _, p := range pairs {
		blob = zl(blob, len(p[0]))
		blob = append(blob, p[0]...)
		blob = zl(blob, len(p[1]))
		blob = append(blob, 0)
		blob = append(blob, p[1]...)
	}
	blob = append(blob, 0xff)
	return gen.Payload(gen.THashZipmap, gen.AppendRawString(nil, blob), gen.DumpVersion)
}

func TestC12Regress(t *testing.T) {
	cases := []struct {
		sig   string
		zmlen byte
		pairs [][2][]byte
	}{
		{"decode-error:zipmap-len254", 254, [][2][]byte{{[]byte("a"), []byte("1")}, {[]byte("b"), []byte("2")}}},
		{"decode-error:zipmap-item253", 1, [][2][]byte{{[]byte("a"), bytes.Repeat([]byte("v"), 253)}}},
		{"decode-error:zipmap-biglen", 2, [][2][]byte{{bytes.Repeat([]byte("k"), 254), []byte("x")}, {[]byte("b"), bytes.Repeat([]byte("v"), 70000)}}},
	}
	for _, c := range cases {
		v := gen.Value{Kind: "hash"}
		for _, p := range c.pairs {
			v.Hash = append(v.Hash, gen.HE{Field: p[0], Value: p[1]})
		}
		o, err := rdb.DecodeDump(handZipmap(c.zmlen, c.pairs))
		if err != nil {
			violation(t, "C12", c.sig, "zipmap payload not decoded: %v", err)
			continue
		}
		if d := sameObj(v, o, true); d != "" {
			violation(t, "C12", strings.Replace(c.sig, "decode-error", "decode-value", 1), "zipmap payload decodes to another value: %s", d)
		}
	}
}
