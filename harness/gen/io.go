package gen

import (
	"io"

	"pgregory.net/rapid"
)

// ChunkReader returns data in reads of the scripted sizes (cycled), never more.
type ChunkReader struct {
	Data  []byte
	Sizes []int
	i     int
	Pos   int
	// EOFWithData: the read that delivers the last bytes also returns io.EOF (as io.Reader allows and e.g.
	// a closing network connection or iotest.DataErrReader does), instead of reporting EOF in a read of its own
	EOFWithData bool
}

func (c *ChunkReader) Read(p []byte) (int, error) {
	if c.Pos >= len(c.Data) {
		return 0, io.EOF
	}
	if len(p) == 0 {
		return 0, nil
	}
	n := len(p)
	if len(c.Sizes) > 0 {
		s := c.Sizes[c.i%len(c.Sizes)]
		c.i++
		if s < 1 {
			s = 1
		}
		if s < n {
			n = s
		}
	}
	if rem := len(c.Data) - c.Pos; rem < n {
		n = rem
	}
	copy(p, c.Data[c.Pos:c.Pos+n])
	c.Pos += n
	if c.EOFWithData && c.Pos >= len(c.Data) {
		return n, io.EOF
	}
	return n, nil
}

func ChunkSizes() *rapid.Generator[[]int] {
	return rapid.OneOf(
		rapid.Just([]int{1}),
		rapid.Just([]int{1 << 20}),
		rapid.SliceOfN(rapid.IntRange(1, 9), 1, 6),
		rapid.SliceOfN(rapid.SampledFrom([]int{1, 2, 3, 7, 16, 17, 64, 1000, 4096, 8192}), 1, 5),
	)
}
