//go:build verif

package props

import (
	"fmt"
	"io"
	"strconv"
	"strings"
	"sync"
	"testing"
	"time"

	"github.com/alibaba/RedisShake/pkg/libs/io/pipe"
	"pgregory.net/rapid"

	"verif/harness/fsrc"
	"verif/harness/logcap"
	"verif/harness/stats"
)

type c08Seg struct {
	n   int
	gap time.Duration
}

type c08Script struct {
	start     int64
	full      bool
	rdb       []byte
	waitFull  time.Duration // when WaitFull is closed, relative to the handshake
	segs      []c08Seg
	dropAfter int  // index of the segment after which the source drops the link (-1: never)
	refuse    int  // reconnect attempts refused before one is accepted
	psyncErr  bool // the first reconnect is answered with an error to PSYNC (the tool then waits 30 s): thorough tier only
	idleDrop  bool // the first reconnect is continued, carries no stream byte and is dropped again
}

func (s c08Script) total() int {
	n := 0
	for _, x := range s.segs {
		n += x.n
	}
	return n
}

func (s c08Script) String() string {
	var parts []string
	for i, x := range s.segs {
		p := fmt.Sprintf("%dB+%v", x.n, x.gap)
		if i == s.dropAfter {
			p += "+DROP"
		}
		parts = append(parts, p)
	}
	return fmt.Sprintf("start=%d full=%v waitFull@%v refuse=%d psyncErr=%v idleDrop=%v segs=[%s]", s.start, s.full, s.waitFull, s.refuse, s.psyncErr, s.idleDrop, strings.Join(parts, " "))
}

func drawC08Script(t *rapid.T) c08Script {
	s := c08Script{dropAfter: -1}
	s.start = rapid.SampledFrom([]int64{0, 57, 1 << 33}).Draw(t, "start")
	s.full = rapid.Bool().Draw(t, "full")
	if s.full {
		s.rdb = patBytes(7, rapid.IntRange(1, 64).Draw(t, "rdblen"))
	}
	s.waitFull = time.Duration(rapid.SampledFrom([]int{0, 0, 300, 1400, 2300}).Draw(t, "waitFullMs")) * time.Millisecond
	var dur time.Duration
	for dur < 3300*time.Millisecond || len(s.segs) < 2 {
		g := time.Duration(rapid.SampledFrom([]int{0, 0, 200, 600, 1100, 2500}).Draw(t, "gapms")) * time.Millisecond
		n := rapid.IntRange(1, 300).Draw(t, "n")
		if rapid.IntRange(0, 4).Draw(t, "fullBlocks") == 2 {
			// bursts that fill the copy buffer exactly (every read returns a full 8192-byte block)
			n = 8192 * rapid.IntRange(1, 3).Draw(t, "blocks")
		}
		s.segs = append(s.segs, c08Seg{n: n, gap: g})
		dur += g
		if len(s.segs) > 12 {
			break
		}
	}
	if rapid.IntRange(0, 1).Draw(t, "drop") == 0 {
		s.dropAfter = rapid.IntRange(0, len(s.segs)-2).Draw(t, "dropAfter")
		s.refuse = rapid.SampledFrom([]int{0, 0, 1}).Draw(t, "refuse")
		if thorough() && rapid.IntRange(0, 3).Draw(t, "psyncErr") == 0 {
			s.psyncErr, s.refuse = true, 0
		}
		if !s.psyncErr && rapid.IntRange(0, 3).Draw(t, "idleDrop") == 2 {
			s.idleDrop = true
		}
	}
	return s
}

type c08Outcome struct {
	sig, msg string
	acks     int
	drops    int
}

const c08RunID = "c08c08c08c08c08c08c08c08c08c08c08c08c08c0"

func runC08(s c08Script) c08Outcome {
	var out c08Outcome
	total := s.total()
	stream := make([]byte, total)
	fillStream(stream, 0)
	var srcRef *fsrc.Source
	// plan of the first connection
	var steps []fsrc.Step
	if s.full {
		steps = append(steps, fsrc.Step{Send: []byte(fmt.Sprintf("+FULLRESYNC %s %d\r\n$%d\r\n", c08RunID, s.start, len(s.rdb)))})
		steps = append(steps, fsrc.Step{Send: s.rdb})
	} else {
		steps = append(steps, fsrc.Step{Send: []byte("+CONTINUE\r\n")})
	}
	pos := 0
	sentBeforeDrop := total
	var dropTime time.Time
	var dmu sync.Mutex
	for i, sg := range s.segs {
		steps = append(steps, fsrc.Step{Send: stream[pos : pos+sg.n], Stream: true, Sleep: sg.gap})
		pos += sg.n
		if i == s.dropAfter {
			sentBeforeDrop = pos
			steps = append(steps, fsrc.Step{Close: true, Hook: func(*fsrc.Conn) {
				dmu.Lock()
				dropTime = time.Now()
				dmu.Unlock()
				if s.refuse > 0 {
					srcRef.Pause(time.Duration(s.refuse)*time.Second + 300*time.Millisecond) // reconnect attempts are refused for a while
				}
			}})
			break
		}
	}
	if s.dropAfter < 0 {
		steps = append(steps, fsrc.Step{Sleep: 2600 * time.Millisecond}) // idle tail: the last ACKs must be exact
	}
	plans := []fsrc.Plan{{Steps: steps}}
	var psyncSeen []string
	var pmu sync.Mutex
	if s.dropAfter >= 0 {
		if s.psyncErr {
			// the source accepts the connection but cannot serve PSYNC yet
			plans = append(plans, fsrc.Plan{OnPSync: func(runid string, offset int64) []fsrc.Step {
				pmu.Lock()
				psyncSeen = append(psyncSeen, fmt.Sprintf("%s %d", runid, offset))
				pmu.Unlock()
				return []fsrc.Step{{Send: []byte("-NOMASTERLINK Can't SYNC while not connected with my master\r\n"), Close: true}}
			}})
		}
		if s.idleDrop {
			// the source continues, has nothing to send and loses the link again
			plans = append(plans, fsrc.Plan{OnPSync: func(runid string, offset int64) []fsrc.Step {
				pmu.Lock()
				psyncSeen = append(psyncSeen, fmt.Sprintf("%s %d", runid, offset))
				pmu.Unlock()
				return []fsrc.Step{{Send: []byte("+CONTINUE\r\n"), Sleep: 150 * time.Millisecond}, {Close: true}}
			}})
		}
		plans = append(plans, fsrc.Plan{OnPSync: func(runid string, offset int64) []fsrc.Step {
			pmu.Lock()
			psyncSeen = append(psyncSeen, fmt.Sprintf("%s %d", runid, offset))
			pmu.Unlock()
			// a master continues at the requested offset
			from := int(offset - 1 - s.start)
			st := []fsrc.Step{{Send: []byte("+CONTINUE\r\n")}}
			if from >= 0 && from <= total {
				p := from
				// resume the segment schedule after the drop point
				for i := s.dropAfter + 1; i < len(s.segs); i++ {
					end := p + s.segs[i].n
					if end > total {
						end = total
					}
					st = append(st, fsrc.Step{Send: stream[p:end], Stream: true, Sleep: s.segs[i].gap})
					p = end
				}
				if p < total {
					st = append(st, fsrc.Step{Send: stream[p:], Stream: true})
				}
			}
			st = append(st, fsrc.Step{Sleep: 2600 * time.Millisecond})
			return st
		}})
	}
	src := fsrc.New(srcSentinel, plans...)
	srcRef = src
	defer func() {
		src.Default = &fsrc.Plan{Refuse: true} // left-over reconnects end through the tool's abort path
		for _, c := range src.ConnList() {
			c.Close()
		}
		time.AfterFunc(4*time.Second, src.Close)
	}()
	ds := newSyncer(<-incrSlots)
	defer func(id int) { time.AfterFunc(5*time.Second, func() { incrSlots <- id }) }(0)
	ask := "?"
	ds.VerifSetResume("", 0, -1, "")
	if !s.full {
		ask = c08RunID
		ds.VerifSetResume(c08RunID, 0, s.start, "")
	}
	var piper pipe.Reader
	var perr error
	res := logcap.RunTree(func() { piper, _, _, _, perr = ds.VerifSendPSyncCmd(src.Addr(), "auth", srcSentinel, false, ask) })
	if !res.Completed || perr != nil {
		out.sig, out.msg = "handshake", fmt.Sprintf("%v err=%v", res, perr)
		return out
	}
	t0 := time.Now()
	var wfAt time.Time
	time.AfterFunc(s.waitFull, func() { dmu.Lock(); wfAt = time.Now(); dmu.Unlock(); ds.VerifCloseWaitFull() })
	// consumer of the pipe: the byte stream must continue exactly, also across a reconnect
	want := append(append([]byte{}, s.rdb...), stream...)
	gotCh := make(chan []byte, 1)
	go func() {
		got := make([]byte, 0, len(want))
		buf := make([]byte, 4096)
		for len(got) < len(want) {
			n, err := piper.Read(buf)
			got = append(got, buf[:n]...)
			if err != nil {
				break
			}
		}
		gotCh <- got
	}()
	// wait for the script to play out
	for _, c := range src.ConnList() {
		<-c.Done
	}
	deadline := time.Now().Add(time.Duration(6+s.refuse) * time.Second)
	if s.psyncErr {
		deadline = time.Now().Add(40 * time.Second)
	}
	if s.idleDrop {
		deadline = deadline.Add(3 * time.Second)
	}
	for s.dropAfter >= 0 && time.Now().Before(deadline) {
		cl := src.ConnList()
		need := 2
		if s.psyncErr || s.idleDrop {
			need = 3
		}
		if len(cl) >= need {
			<-cl[len(cl)-1].Done
			break
		}
		time.Sleep(20 * time.Millisecond)
	}
	if src.RelistenFailed() {
		// harness: the paused port was taken by another process; no verdict from this history
		return c08Outcome{}
	}
	dmu.Lock()
	wf, dt := wfAt, dropTime
	dmu.Unlock()
	_ = t0
	// ---- oracle over what the source observed ----
	conns := src.ConnList()
	base := int64(0) // stream bytes sent on earlier connections
	for ci, c := range conns {
		var last int64 = -1
		cmds := c.Commands()
		for _, r := range cmds {
			if len(r.Argv) == 3 && strings.EqualFold(r.Argv[0], "replconf") && strings.EqualFold(r.Argv[1], "ack") {
				v, _ := strconv.ParseInt(r.Argv[2], 10, 64)
				out.acks++
				sent := base + r.StreamSent
				where := fmt.Sprintf("connection %d: ACK %d received when the source had sent %d stream bytes (start offset %d)", ci, v, sent, s.start)
				if wf.IsZero() || r.At.Before(wf.Add(-30*time.Millisecond)) {
					if v != 0 {
						out.sig, out.msg = "ack-before-full-sync-done", where+": the full phase is not finished, the ACK must be 0"
						return out
					}
					continue
				}
				if r.At.Before(wf.Add(1100*time.Millisecond)) && v == 0 {
					continue // tick straddling the moment WaitFull was closed
				}
				if v > s.start+sent {
					out.sig, out.msg = "ack-ahead", where+": acknowledged more than was received"
					return out
				}
				if v < last {
					out.sig, out.msg = "ack-decreased", fmt.Sprintf("%s: previous ACK was %d", where, last)
					return out
				}
				last = v
				// never stale: what the source had handed to the socket 600 ms before the ACK arrived has been received
				// (loopback, the consumer drains the pipe at once) and must be acknowledged
				if lb := base + c.SentBy(r.At.Add(-600*time.Millisecond)); v < s.start+lb {
					out.sig, out.msg = "ack-stale", fmt.Sprintf("%s: %d stream bytes had been sent 600 ms earlier, so at least %d must be acknowledged", where, lb, s.start+lb)
					return out
				}
				// exact once the stream has been idle for more than two ticks
				if idleSince(c, cmds, r, s, base) > 2300*time.Millisecond && v != s.start+sent {
					out.sig, out.msg = "ack-not-exact-after-idle", where+": the stream has been idle for > 2 ticks, the ACK must equal start + bytes received"
					return out
				}
			}
		}
		base += c.StreamSent()
	}
	if s.dropAfter >= 0 {
		out.drops = 1
		pmu.Lock()
		seen := append([]string{}, psyncSeen...)
		pmu.Unlock()
		if len(seen) == 0 {
			out.sig, out.msg = "no-reconnect", fmt.Sprintf("the link was dropped at %v; no PSYNC arrived within 6 s", dt.Format("15:04:05.000"))
			return out
		}
		wantPS := fmt.Sprintf("%s %d", c08RunID, s.start+int64(sentBeforeDrop)+1)
		for _, ps := range seen {
			if ps != wantPS {
				out.sig, out.msg = "reconnect-offset", fmt.Sprintf("after the drop the tool sent PSYNC %v; the source had sent %d stream bytes from start offset %d, so every attempt must ask for %s", seen, sentBeforeDrop, s.start, wantPS)
				return out
			}
		}
		if s.idleDrop && len(seen) < 2 {
			out.sig, out.msg = "no-reconnect", fmt.Sprintf("the continued link was dropped again while idle; no further PSYNC within %d s (seen %v)", 9+s.refuse, seen)
			return out
		}
		if s.psyncErr && len(seen) < 2 {
			out.sig, out.msg = "no-reconnect", fmt.Sprintf("PSYNC was refused once; no second attempt within 40 s (seen %v)", seen)
			return out
		}
	}
	select {
	case got := <-gotCh:
		if string(got) != string(want) {
			out.sig, out.msg = "stream-discontinuity", fmt.Sprintf("the consumer of the pipe read %d bytes, the source sent %d; first difference at %d", len(got), len(want), firstDiff(got, want))
			return out
		}
	case <-time.After(3 * time.Second):
		out.sig, out.msg = "stream-incomplete", "the consumer did not receive the whole stream within 3 s of the end of the script"
		return out
	}
	return out
}

// idleSince: how long before ACK r the source last sent a stream byte on this connection.
func idleSince(c *fsrc.Conn, cmds []fsrc.Recv, r fsrc.Recv, s c08Script, base int64) time.Duration {
	// approximate from the command log: the latest earlier command at which fewer bytes had been sent
	var lastChange time.Time = c.PSyncAt
	prev := int64(0)
	for _, x := range cmds {
		if !x.At.Before(r.At) {
			break
		}
		if x.StreamSent != prev {
			lastChange = x.At
			prev = x.StreamSent
		}
	}
	if r.StreamSent != prev {
		return 0
	}
	return r.At.Sub(lastChange) - 1100*time.Millisecond // the change happened at most one tick before it was first observed
}

func c08Batch(t *rapid.T) {
	k := rapid.IntRange(8, 16).Draw(t, "k")
	scripts := make([]c08Script, k)
	for i := range scripts {
		scripts[i] = drawC08Script(t)
	}
	outs := make([]c08Outcome, k)
	var wg sync.WaitGroup
	for i := range scripts {
		wg.Add(1)
		go func(i int) { defer wg.Done(); outs[i] = runC08(scripts[i]) }(i)
	}
	wg.Wait()
	dropLeftoverAborts()
	for i, o := range outs {
		if o.sig != "" {
			if violation(t, "C08", o.sig, "%s: %s", scripts[i], o.msg) {
				continue
			}
		}
		nt := o.acks >= 2 || o.drops >= 1
		cls := []string{"history"}
		if o.drops > 0 {
			cls = append(cls, "with-drop")
		}
		stats.C.Case(nt, stats.HashS(scripts[i].String()), cls...)
		stats.C.Count("acks_checked", int64(o.acks))
		if nt && len(scripts[i].segs) <= 6 {
			stats.C.Sample(fmt.Sprintf("%s => %d ACKs checked, %d reconnects", scripts[i], o.acks, o.drops))
		}
	}
}

var _ = io.EOF

func TestC08(t *testing.T) { rapid.Check(t, c08Batch) }

func TestC08Regress(t *testing.T) {
	// fixed D7: ACKs over several ticks with traffic between them, then a drop: the reconnect offset must be exact
	s := c08Script{start: 57, full: true, rdb: patBytes(7, 10), dropAfter: 2, segs: []c08Seg{{13, 1100 * time.Millisecond}, {8, 1200 * time.Millisecond}, {5, 300 * time.Millisecond}, {9, 0}}}
	if o := runC08(s); o.sig != "" {
		violation(t, "C08", o.sig, "%s: %s", s, o.msg)
	}
	dropLeftoverAborts()
}
