//go:build verif

package props

import (
	"bytes"
	"fmt"
	"strconv"
	"testing"
	"time"

	conf "github.com/alibaba/RedisShake/redis-shake/configure"
	"pgregory.net/rapid"

	"verif/harness/stats"
)

// c03Volume: one long stream (tens of thousands of commands, delivered in a few large pieces, metrics on, the delay queue at
// the size the option sanitiser gives it when it is not configured): every command reaches the target, in order, and the
// last one within the usual bound - bookkeeping on the side (delay sampling, counters) must never stop the flow.
func c03Volume(t *rapid.T) {
	n := rapid.SampledFrom([]int{40000, 70000}).Draw(t, "n")
	c := incrConf{targetDB: -1, senderCount: uint(rapid.SampledFrom([]int{1, 64, 1024}).Draw(t, "senderCount")), senderSize: 104857600}
	c.apply()
	defer resetIncrConf()
	saved := conf.Options.SenderDelayChannelSize
	conf.Options.SenderDelayChannelSize = uint(rapid.SampledFrom([]int{32, 32, 4096}).Draw(t, "delayQueue"))
	defer func() { conf.Options.SenderDelayChannelSize = saved }()
	if conf.Options.SenderDelayChannelSize == 32 && rapid.Bool().Draw(t, "flushEach") {
		// one flush per command: the delay sampler is consulted for every command id
		c.senderCount = 1
		conf.Options.SenderCount = 1
	}
	defer quietLog()()
	var buf bytes.Buffer
	encodeCmd(&buf, bb("select", "0"))
	for i := 0; i < n; i++ {
		encodeCmd(&buf, bb("set", "k"+strconv.Itoa(i%97), strconv.Itoa(i)))
	}
	data := buf.Bytes()
	srv := newIncrTarget()
	in := startIncr(srv, false, c08RunID, 0, 0)
	defer func() { in.stop(); go in.reap() }()
	pieces := rapid.IntRange(1, 4).Draw(t, "pieces")
	var splits []int
	var delays []time.Duration
	for i := 1; i < pieces; i++ {
		splits = append(splits, len(data)*i/pieces)
		delays = append(delays, 100*time.Millisecond)
	}
	in.feed(data, splits, delays)
	deadline := time.Now().Add(25 * time.Second)
	count := func() (int, string) {
		nset, last := 0, ""
		for _, cm := range srv.LogCopy() {
			if cm.Name == "set" {
				nset++
				last = string(cm.Argv[2])
			}
		}
		return nset, last
	}
	var got int
	var last string
	for time.Now().Before(deadline) {
		if got, last = count(); got >= n {
			break
		}
		if ab := in.aborts(); len(ab) > 0 {
			violation(t, "C03", "abort", "stream of %d commands (sender.count=%d): the syncer aborted after %d had been applied: %s", n, c.senderCount, got, ab[0].Msg)
			return
		}
		time.Sleep(100 * time.Millisecond)
	}
	if got != n || last != strconv.Itoa(n-1) {
		violation(t, "C03", "missing:volume", "stream of %d SET commands (sender.count=%d, delay queue %d): %d reached the target within 25 s of delivery (last value %q)", n, c.senderCount, conf.Options.SenderDelayChannelSize, got, last)
		return
	}
	stats.C.Case(true, stats.HashS(fmt.Sprint(n, c.senderCount, pieces, conf.Options.SenderDelayChannelSize)), "volume")
}

func TestC03Volume(t *testing.T) { rapid.Check(t, c03Volume) }
