//go:build verif

package props

import (
	"fmt"
	"sync"
	"testing"
	"time"

	utils "github.com/alibaba/RedisShake/redis-shake/common"
	"pgregory.net/rapid"

	"verif/harness/stats"
)

type qosPhase struct {
	take int
	idle time.Duration
}

type qosScript struct {
	limit  int
	phases []qosPhase
}

func (s qosScript) String() string {
	out := fmt.Sprintf("qps=%d:", s.limit)
	for _, p := range s.phases {
		out += fmt.Sprintf(" take%d idle%v", p.take, p.idle)
	}
	return out
}

// runQoS: the rump writer's rate limiter must keep supplying tokens (qps per second) whatever the pace of the
// consumer was before: a writer that waits for a token is served within the time the rate implies.
func runQoS(s qosScript) (string, string) {
	bucket := utils.StartQoS(s.limit)
	for i, p := range s.phases {
		start := time.Now()
		bound := time.Duration(p.take/s.limit+2)*time.Second + 500*time.Millisecond
		for k := 0; k < p.take; k++ {
			select {
			case <-bucket:
			case <-time.After(bound - time.Since(start)):
				return "qos-starved", fmt.Sprintf("phase %d: only %d of %d tokens were supplied within %v although the limit is %d per second", i, k, p.take, bound, s.limit)
			}
		}
		time.Sleep(p.idle)
	}
	return "", ""
}

func c16QoS(t *rapid.T) {
	k := rapid.IntRange(8, 24).Draw(t, "k")
	scripts := make([]qosScript, k)
	for i := range scripts {
		s := qosScript{limit: rapid.SampledFrom([]int{1, 2, 3, 5}).Draw(t, "limit")}
		var total time.Duration
		for len(s.phases) < 4 && total < 6*time.Second {
			p := qosPhase{take: rapid.IntRange(1, 2*s.limit+1).Draw(t, "take"), idle: time.Duration(rapid.SampledFrom([]int{0, 300, 1100, 2100}).Draw(t, "idlems")) * time.Millisecond}
			s.phases = append(s.phases, p)
			total += p.idle + time.Duration(p.take/s.limit+1)*time.Second
		}
		scripts[i] = s
	}
	type res struct{ sig, msg string }
	outs := make([]res, k)
	var wg sync.WaitGroup
	for i := range scripts {
		wg.Add(1)
		go func(i int) { defer wg.Done(); outs[i].sig, outs[i].msg = runQoS(scripts[i]) }(i)
	}
	wg.Wait()
	for i, o := range outs {
		if o.sig != "" {
			if violation(t, "C16", o.sig, "%s: %s", scripts[i], o.msg) {
				continue
			}
		}
		idled := false
		for _, p := range scripts[i].phases[:len(scripts[i].phases)-1] {
			idled = idled || p.idle >= time.Second
		}
		stats.C.Case(idled, stats.HashS(scripts[i].String()), "rate-limiter")
		if idled && len(scripts[i].phases) <= 3 {
			stats.C.Sample("rate limiter: " + scripts[i].String())
		}
	}
}

func TestC16QoS(t *testing.T) { rapid.Check(t, c16QoS) }
