// Package ref holds reference algorithms written for the harness, independent
// of the repository's implementations. They are the trusted base of the oracles.
package ref

// CRC64 is the bit-by-bit CRC-64 "Jones" used by Redis: polynomial
// 0xad93d23594c935a9, reflected input and output, initial value 0, no final xor.
// Check value: CRC64("123456789") = 0xe9c6d914c4b8d9ca.
func CRC64(crc uint64, data []byte) uint64 {
	for _, b := range data {
		crc = crc64Table[byte(crc)^b] ^ (crc >> 8)
	}
	return crc
}

// crc64Table is derived at start-up from the bit-by-bit definition below (it is not
// copied from anywhere); TestCheckValues compares table-driven and bit-by-bit results.
var crc64Table = func() (t [256]uint64) {
	for i := range t {
		t[i] = CRC64Bitwise(0, []byte{byte(i)})
	}
	return
}()

func CRC64Bitwise(crc uint64, data []byte) uint64 {
	const polyReflected = 0x95ac9329ac4bc9b5 // bit-reversal of 0xad93d23594c935a9
	for _, b := range data {
		crc ^= uint64(b)
		for i := 0; i < 8; i++ {
			if crc&1 != 0 {
				crc = (crc >> 1) ^ polyReflected
			} else {
				crc >>= 1
			}
		}
	}
	return crc
}

// CRC16 is the bit-by-bit CRC16/XMODEM (poly 0x1021, init 0, no reflection).
// Check value: CRC16("123456789") = 0x31C3.
func CRC16(data []byte) uint16 {
	var crc uint16
	for _, b := range data {
		crc ^= uint16(b) << 8
		for i := 0; i < 8; i++ {
			if crc&0x8000 != 0 {
				crc = (crc << 1) ^ 0x1021
			} else {
				crc <<= 1
			}
		}
	}
	return crc
}

// Slot implements the Redis Cluster key-to-slot rule literally: find the first
// '{'; find the first '}' after it; if both exist and the substring between them
// is non-empty, hash only that; otherwise hash the whole key.
func Slot(key []byte) int {
	s := -1
	for i, c := range key {
		if c == '{' {
			s = i
			break
		}
	}
	if s >= 0 {
		e := -1
		for i := s + 1; i < len(key); i++ {
			if key[i] == '}' {
				e = i
				break
			}
		}
		if e >= 0 && e != s+1 {
			return int(CRC16(key[s+1:e])) % 16384
		}
	}
	return int(CRC16(key)) % 16384
}
