//go:build verif

package props

import (
	"fmt"
	"sort"
	"strings"
	"testing"
	"time"
	"verif/harness/fsrc"

	conf "github.com/alibaba/RedisShake/redis-shake/configure"
	"github.com/alibaba/RedisShake/redis-shake/dbSync"
	"github.com/alibaba/RedisShake/redis-shake/dbSync/slot"
	"golang.org/x/sync/semaphore"
	"pgregory.net/rapid"

	"verif/harness/logcap"
	"verif/harness/mredis"
	"verif/harness/stats"
)

// c20Syncer: the syncer's own use of re-discovery at (re)start: across a generated sequence of
// fail-overs the syncer must always end up with the current master as source and every other
// known node as replica (so that a later fail-back can still be followed).
func c20Syncer(t *rapid.T) {
	n := rapid.IntRange(2, 4).Draw(t, "nodes")
	var srvs []*mredis.Server
	var addrs []string
	for i := 0; i < n; i++ {
		s := mredis.New()
		s.Password = srcSentinel
		s.Role = "slave"
		s.Listen()
		defer s.Close()
		srvs = append(srvs, s)
		addrs = append(addrs, s.Addr())
	}
	conf.Options.SourceType = conf.RedisTypeCluster
	defer func() { conf.Options.SourceType = conf.RedisTypeStandalone }()
	node := &slot.SyncNode{Id: 0, Source: addrs[0], Slaves: append([]string{}, addrs[1:]...), SourcePassword: srcSentinel, TargetPassword: tgtSentinel,
		Target: []string{"127.0.0.1:1"}, SlotLeftBoundary: 0, SlotRightBoundary: 16383}
	ds := dbSync.NewDbSyncer(node, 9320, semaphore.NewWeighted(1))
	steps := rapid.IntRange(1, 5).Draw(t, "steps")
	var history []string
	prev := -1
	changes := 0
	for st := 0; st < steps; st++ {
		m := rapid.IntRange(0, n-1).Draw(t, "master")
		if m != prev {
			changes++
		}
		prev = m
		for i, s := range srvs {
			s.Lock()
			switch {
			case i == m:
				s.Role = "master"
			case rapid.IntRange(0, 4).Draw(t, "noRole") == 0:
				s.Role = "none"
			default:
				s.Role = "slave"
			}
			s.Unlock()
		}
		history = append(history, fmt.Sprintf("master=node%d", m))
		res := logcap.Run(func() { ds.VerifUpdateSlotTopology() })
		if !res.Completed {
			violation(t, "C20", "syncer-topology:abort", "after fail-overs %v: topology update aborted although node%d reports master: %v", history, m, res)
			return
		}
		got := ds.VerifNode()
		all := append([]string{got.Source}, got.Slaves...)
		sort.Strings(all)
		want := append([]string{}, addrs...)
		sort.Strings(want)
		if got.Source != addrs[m] || strings.Join(all, ",") != strings.Join(want, ",") {
			violation(t, "C20", "syncer-topology:node-list", "after fail-overs %v (nodes %v): syncer holds source %q replicas %v; want source %q and every other node as replica", history, addrs, got.Source, got.Slaves, addrs[m])
			return
		}
	}
	stats.C.Case(changes >= 2, stats.HashS(fmt.Sprint(n, history)), "syncer-topology")
	if changes >= 3 {
		stats.C.Sample(fmt.Sprintf("syncer over %d nodes, fail-over sequence %v", n, history))
	}
}

func TestC20Syncer(t *testing.T) { rapid.Check(t, c20Syncer) }

// c20SyncerWindow: the syncer's reaction over the supervisor's whole retry window (real back-off, ~21 s): a batch of
// syncers whose nodes either never report master (the topology update must not return as if it had found one: the
// syncer would go on replicating from a node that may be a replica by now) or start reporting master only after a
// generated number of INFO rounds (the update must return with exactly that node).
func c20SyncerWindow(t *rapid.T) {
	conf.Options.SourceType = conf.RedisTypeCluster
	defer func() { conf.Options.SourceType = conf.RedisTypeStandalone }()
	k := rapid.IntRange(4, 8).Draw(t, "k")
	type inst struct {
		n, lateNode, lateAfter int // lateNode -1: never
		srvs                   []*mredis.Server
		addrs                  []string
		ds                     *dbSync.DbSyncer
		res                    logcap.Result
	}
	insts := make([]*inst, k)
	for i := range insts {
		in := &inst{n: rapid.IntRange(1, 3).Draw(t, "nodes"), lateNode: -1}
		if rapid.IntRange(0, 2).Draw(t, "late") == 0 {
			in.lateNode = rapid.IntRange(0, in.n-1).Draw(t, "lateNode")
			in.lateAfter = rapid.IntRange(1, 6).Draw(t, "lateAfter") // INFO rounds answered as replica before
		}
		for j := 0; j < in.n; j++ {
			s := mredis.New()
			s.Password = srcSentinel
			s.Role = rapid.SampledFrom([]string{"slave", "slave", "none"}).Draw(t, "role")
			if j == in.lateNode {
				count := 0
				after := in.lateAfter
				s.Hook = func(cs *mredis.ConnState, argv [][]byte) *mredis.Reply {
					if strings.EqualFold(string(argv[0]), "info") {
						count++
						if count > after {
							s.Role = "master" // the hook runs with the model's lock held
						}
					}
					return nil
				}
			}
			s.Listen()
			in.srvs = append(in.srvs, s)
			in.addrs = append(in.addrs, s.Addr())
		}
		node := &slot.SyncNode{Id: i, Source: in.addrs[0], Slaves: append([]string{}, in.addrs[1:]...), SourcePassword: srcSentinel, TargetPassword: tgtSentinel,
			Target: []string{"127.0.0.1:1"}, SlotLeftBoundary: 0, SlotRightBoundary: 16383}
		in.ds = dbSync.NewDbSyncer(node, 9320, semaphore.NewWeighted(1))
		insts[i] = in
	}
	done := make(chan int, k)
	for i, in := range insts {
		go func(i int, in *inst) { in.res = logcap.Run(func() { in.ds.VerifUpdateSlotTopology() }); done <- i }(i, in)
	}
	for range insts {
		<-done
	}
	for i, in := range insts {
		for _, s := range in.srvs {
			s.Close()
		}
		desc := fmt.Sprintf("syncer %d over %d nodes", i, in.n)
		if in.lateNode < 0 {
			if in.res.Completed {
				violation(t, "C20", "syncer-topology:no-master-accepted", "%s, none of which reports master during the whole retry window: the topology update returned normally and the syncer keeps source %q", desc, in.ds.VerifNode().Source)
				return
			}
			stats.C.Case(true, stats.HashS(fmt.Sprint("never", in.n, i)), "syncer-window:no-master")
			continue
		}
		if in.lateAfter <= 6 && !in.res.Completed {
			violation(t, "C20", "syncer-topology:late-master-missed", "%s, node%d reports master from its INFO round %d on: the topology update aborted: %v", desc, in.lateNode, in.lateAfter+1, in.res)
			return
		}
		if got := in.ds.VerifNode().Source; in.res.Completed && got != in.addrs[in.lateNode] {
			violation(t, "C20", "syncer-topology:node-list", "%s, node%d reports master from its INFO round %d on: syncer holds source %q, want %q", desc, in.lateNode, in.lateAfter+1, got, in.addrs[in.lateNode])
			return
		}
		stats.C.Case(true, stats.HashS(fmt.Sprint("late", in.n, in.lateNode, in.lateAfter)), "syncer-window:late-master")
	}
}

func TestC20SyncerWindow(t *testing.T) { rapid.Check(t, c20SyncerWindow) }

// c20SyncE2E: a complete DbSyncer.Sync() start on a cluster source whose configured node has been demoted: the
// replication link (SYNC/PSYNC) must be opened to the node that reports master now, not to the node the syncer was
// configured with.
func c20SyncE2E(t *rapid.T) {
	conf.Options.SourceType = conf.RedisTypeCluster
	defer func() { conf.Options.SourceType = conf.RedisTypeStandalone }()
	o := &conf.Options
	o.ResumeFromBreakPoint, o.Parallel, o.KeyExists, o.TargetDB = false, 1, "none", -1
	defer resetIncrConf()
	n := rapid.IntRange(2, 3).Draw(t, "nodes")
	master := rapid.IntRange(0, n-1).Draw(t, "master")
	rdbFile := []byte("REDIS0009")
	rdbFile = append(rdbFile, 0xff)
	rdbFile = appendCRC(rdbFile)
	var srcs []*fsrc.Source
	var addrs []string
	for i := 0; i < n; i++ {
		plan := fsrc.Plan{Steps: []fsrc.Step{{Send: []byte(fmt.Sprintf("+FULLRESYNC %s 1\r\n$%d\r\n", c08RunID, len(rdbFile)))}, {Send: rdbFile}, {Sleep: 4 * time.Second}}}
		s := fsrc.New(srcSentinel, plan, plan)
		if i != master {
			s.Role = "slave"
		}
		srcs = append(srcs, s)
		addrs = append(addrs, s.Addr())
	}
	tgt := mredis.New()
	tgt.Password = tgtSentinel
	tgt.Listen()
	defer func() {
		// the source listeners are left open on purpose (see runE2E: the syncer's offset poller dereferences a nil
		// connection when a reconnect to a vanished source fails, which would kill the whole test process)
		for _, s := range srcs {
			s.Silence()
		}
		tgt.CloseConns()
		time.AfterFunc(4*time.Second, func() { tgt.Close() })
	}()
	id := <-incrSlots
	defer func() { time.AfterFunc(5*time.Second, func() { incrSlots <- id }) }()
	node := &slot.SyncNode{Id: id, Source: addrs[0], Slaves: append([]string{}, addrs[1:]...), SourcePassword: srcSentinel, TargetPassword: tgtSentinel,
		Target: []string{tgt.Addr()}, SlotLeftBoundary: 0, SlotRightBoundary: 16383}
	ds := dbSync.NewDbSyncer(node, 9320, semaphore.NewWeighted(4))
	logcap.Start(func() { ds.Sync() })
	replicaOf := func() int {
		for i, s := range srcs {
			for _, c := range s.ConnList() {
				for _, r := range c.Commands() {
					if cmd := strings.ToLower(r.Argv[0]); cmd == "psync" || cmd == "sync" {
						return i
					}
				}
			}
		}
		return -1
	}
	got := -1
	for dl := time.Now().Add(8 * time.Second); time.Now().Before(dl) && got < 0; time.Sleep(30 * time.Millisecond) {
		got = replicaOf()
	}
	dropLeftoverAborts()
	if got != master {
		what := fmt.Sprintf("node%d", got)
		if got < 0 {
			what = "no node (within 8 s)"
		}
		violation(t, "C20", "sync-links-to-non-master", "cluster source with %d nodes, node%d reports master (the syncer was configured with node0): Sync() opened its replication link to %s", n, master, what)
		return
	}
	stats.C.Case(master != 0, stats.HashS(fmt.Sprint(n, master)), "sync-end-to-end")
}

func TestC20SyncE2E(t *testing.T) { rapid.Check(t, c20SyncE2E) }
