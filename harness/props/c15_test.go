//go:build verif

package props

import (
	"fmt"
	"strings"
	"testing"

	utils "github.com/alibaba/RedisShake/redis-shake/common"
	conf "github.com/alibaba/RedisShake/redis-shake/configure"
	"github.com/alibaba/RedisShake/redis-shake/dbSync/latencymonitor"
	"github.com/alibaba/RedisShake/redis-shake/filter"
	gocluster "github.com/vinllen/redis-go-cluster"
	"pgregory.net/rapid"

	"verif/harness/ref"
	"verif/harness/stats"
)

func braceCount(k string) int { return strings.Count(k, "{") + strings.Count(k, "}") }

func c15Sig(k string) string {
	switch {
	case strings.Count(k, "{") >= 2:
		return "slot:multi-open-brace"
	case braceCount(k) > 0:
		return "slot:brace"
	}
	return "slot:plain"
}

func c15CheckKey(t fataler, k string) bool {
	want := ref.Slot([]byte(k))
	got := int(utils.KeyToSlot(k))
	if got != want {
		return violation(t, "C15", c15Sig(k), "KeyToSlot(%q) = %d, Redis Cluster specification gives %d", k, got, want)
	}
	return false
}

// exhaustive over the brace alphabet up to length 8 (87381 keys)
func TestC15Exhaustive(t *testing.T) {
	alpha := []byte("{}ab")
	maxLen := 8
	count, nt := 0, 0
	var rec func(prefix []byte)
	rec = func(prefix []byte) {
		k := string(prefix)
		count++
		if braceCount(k) >= 2 {
			nt++
			stats.C.Case(true, stats.HashS(k), "exhaustive-brace-layout")
		} else {
			stats.C.Case(false, 0, "exhaustive-brace-layout")
		}
		if c15CheckKey(t, k) {
			return
		}
		if len(prefix) == maxLen {
			return
		}
		for _, c := range alpha {
			rec(append(prefix, c))
		}
	}
	rec(nil)
	stats.C.Count("exhaustive_keys_len_le_8_over_4_symbols", int64(count))
	stats.C.Sample("exhaustive: every string over {'{','}','a','b'} of length 0..8, e.g. \"{a}{b}\", \"{}{a}\", \"a{{b}}\", \"}{\"")
}

func keyWithBraces() *rapid.Generator[string] {
	part := rapid.OneOf(
		rapid.Just("{"), rapid.Just("}"), rapid.Just("{}"), rapid.Just("{{"), rapid.Just("}}"),
		rapid.StringMatching(`[a-z0-9:_-]{0,6}`),
		rapid.Map(rapid.SliceOfN(rapid.Byte(), 0, 6), func(b []byte) string { return string(b) }),
	)
	return rapid.Map(rapid.SliceOfN(part, 0, 8), func(ps []string) string { return strings.Join(ps, "") })
}

func c15Random(t *rapid.T) {
	k := keyWithBraces().Draw(t, "key")
	if rapid.IntRange(0, 39).Draw(t, "longKey") == 23 {
		// keys and hash tags beyond 65535 bytes (a 16-bit length would wrap)
		pad := strings.Repeat("x", rapid.SampledFrom([]int{65535, 65536, 65537, 70001}).Draw(t, "padLen"))
		k = rapid.SampledFrom([]string{pad, "{" + pad + "}tail", "a{" + pad + "b}c", pad + k}).Draw(t, "longShape")
	}
	if c15CheckKey(t, k) {
		return
	}
	// the CRC16 copies agree with the reference on every string
	want := ref.CRC16([]byte(k))
	if got := utils.VerifCrc16(k); got != want {
		violation(t, "C15", "crc16:common", "common.crc16(%.60q... %d bytes)=%#x want %#x", k, len(k), got, want)
		return
	}
	if got := latencymonitor.VerifCrc16(k); got != want {
		violation(t, "C15", "crc16:latencymonitor", "latencymonitor.crc16(%.60q... %d bytes)=%#x want %#x", k, len(k), got, want)
		return
	}
	if braceCount(k) == 0 {
		s, err := gocluster.GetSlot([]byte(k))
		if err != nil || int(s) != int(want)%16384 {
			violation(t, "C15", "crc16:go-cluster", "go-cluster GetSlot(%q)=%d err=%v want %d", k, s, err, int(want)%16384)
			return
		}
	}
	stats.C.Case(braceCount(k) >= 2, stats.HashS(k), "random-key")
	if braceCount(k) >= 3 && len(k) > 6 {
		stats.C.Sample(fmt.Sprintf("key %q", k))
	}
}

func c15CheckRange(t fataler, l, r int) bool {
	key := utils.ChoseSlotInRange(utils.CheckpointKey, l, r)
	s := ref.Slot([]byte(key))
	if key == "" || s < l || s > r {
		return violation(t, "C15", "checkpoint-key-range", "ChoseSlotInRange(%q,%d,%d)=%q hashes to slot %d", utils.CheckpointKey, l, r, key, s)
	}
	if !strings.HasPrefix(key, utils.CheckpointKey) || !filter.FilterKey(key) {
		return violation(t, "C15", "checkpoint-key-filter", "checkpoint key %q for [%d,%d] is not excluded by the key filter (key whitelist %v, blacklist %v)", key, l, r, conf.Options.FilterKeyWhitelist, conf.Options.FilterKeyBlacklist)
	}
	lk := latencymonitor.VerifFindKeyInRange(l, r)
	if s := ref.Slot([]byte(lk)); s < l || s > r {
		return violation(t, "C15", "latency-key-range", "findKeyInRange(%d,%d)=%q hashes to slot %d", l, r, lk, s)
	}
	return false
}

func c15Range(t *rapid.T) {
	var l, r int
	switch rapid.IntRange(0, 3).Draw(t, "shape") {
	case 0:
		l = rapid.IntRange(0, 16383).Draw(t, "single")
		r = l
	case 1:
		l = rapid.SampledFrom([]int{0, 1, 5460, 5461, 10922, 10923, 16382, 16383}).Draw(t, "edge")
		r = l + rapid.IntRange(0, 2).Draw(t, "w")
		if r > 16383 {
			r = 16383
		}
	default:
		l = rapid.IntRange(0, 16383).Draw(t, "l")
		r = rapid.IntRange(l, 16383).Draw(t, "r")
	}
	// "every such key is excluded by the key filter": whatever key black/white list is configured
	// (lists that would let the key pass or that do not mention it at all)
	f := filterConf{}
	pre := rapid.SliceOfNDistinct(rapid.SampledFrom([]string{"r", "redis", "redis-shake-", "redis-shake-checkpoint", "redis-shake-checkpoint-", "a", "user:", "x"}), 1, 3, func(s string) string { return s })
	switch rapid.IntRange(0, 2).Draw(t, "keyfilter") {
	case 0:
		f.keyWhite = pre.Draw(t, "keyWhite")
	case 1:
		f.keyBlack = pre.Draw(t, "keyBlack")
	}
	f.apply()
	defer resetFilters()
	if c15CheckRange(t, l, r) {
		return
	}
	stats.C.Case(r-l < 4, stats.HashS(fmt.Sprintf("range %d %d %v %v", l, r, f.keyWhite, f.keyBlack)), "slot-range", fmt.Sprintf("key-filter-configured=%v", f.hasKeyFilter()))
	if l == r {
		stats.C.Sample(fmt.Sprintf("slot range [%d,%d] -> checkpoint key %q", l, r, utils.ChoseSlotInRange(utils.CheckpointKey, l, r)))
	}
}

func TestC15(t *testing.T) {
	t.Run("random", func(t *testing.T) { rapid.Check(t, c15Random) })
}

func TestC15Range(t *testing.T) {
	rapid.Check(t, c15Range)
}

// every single-slot range (thorough)
func TestC15AllSingleSlots(t *testing.T) {
	si, sn := shard()
	for s := si; s < 16384; s += sn {
		if c15CheckRange(t, s, s) {
			return
		}
		stats.C.Case(true, stats.HashS(fmt.Sprintf("range %d %d", s, s)), "single-slot-range-exhaustive")
	}
}

func TestC15Regress(t *testing.T) {
	// fixed: hash tag must come from the FIRST '{' and the first '}' after it
	for _, k := range []string{"{a}{b}", "{}{a}", "{{a}}", "foo{}{bar}", "a{b}c{d}e", "{a}{", "}{a}{b}"} {
		c15CheckKey(t, k)
	}
}
