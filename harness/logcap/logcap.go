// Package logcap replaces the tool's global logger so that the harness can
// (a) see every record the tool prints, (b) observe the tool's abort path
// (log.Panic* prints a "[PANIC] " record and then calls os.Exit(1)) without
// dying: the writer ends the calling goroutine with runtime.Goexit before
// os.Exit is reached, and (c) scan everything printed for password sentinels.
package logcap

import (
	"bytes"
	"fmt"
	"runtime"
	"strconv"
	"strings"
	"sync"

	"github.com/alibaba/RedisShake/pkg/libs/log"
)

type Abort struct {
	Gid    int64  // goroutine that aborted
	Parent int64  // goroutine that created it (0 if unknown)
	Msg    string // first line of the record
	Full   string
}

type Capture struct {
	mu       sync.Mutex
	tail     []byte // last bytes, for diagnostics
	Bytes    int64
	Records  int64
	aborts   []Abort
	sent     [][]byte
	Leaks    []string
	keepTail int
}

var (
	Cap  *Capture
	once sync.Once
)

// Install replaces log.StdLog (idempotent) and returns the capture.
func Install() *Capture {
	once.Do(func() {
		Cap = &Capture{keepTail: 1 << 16}
		l := log.New(Cap, "")
		l.SetFlags(0)
		log.StdLog = l
	})
	return Cap
}

func (c *Capture) SetSentinels(s ...string) {
	c.mu.Lock()
	defer c.mu.Unlock()
	c.sent = nil
	for _, x := range s {
		if x != "" {
			c.sent = append(c.sent, []byte(x))
		}
	}
}

// Scan checks an arbitrary document (status JSON, config echo) for sentinels.
func (c *Capture) Scan(what string, doc []byte) {
	c.mu.Lock()
	defer c.mu.Unlock()
	c.Bytes += int64(len(doc))
	c.scanLocked(what, doc)
}

func (c *Capture) scanLocked(what string, p []byte) {
	for _, s := range c.sent {
		if i := bytes.Index(p, s); i >= 0 {
			lo, hi := i-120, i+len(s)+40
			if lo < 0 {
				lo = 0
			}
			if hi > len(p) {
				hi = len(p)
			}
			if len(c.Leaks) < 50 {
				c.Leaks = append(c.Leaks, what+": "+string(p[lo:hi]))
			}
		}
	}
}

func gidAndParent() (int64, int64) {
	buf := make([]byte, 1<<16)
	n := runtime.Stack(buf, false)
	s := string(buf[:n])
	var gid, parent int64
	if strings.HasPrefix(s, "goroutine ") {
		rest := s[len("goroutine "):]
		if i := strings.IndexByte(rest, ' '); i > 0 {
			gid, _ = strconv.ParseInt(rest[:i], 10, 64)
		}
	}
	if i := strings.LastIndex(s, " in goroutine "); i >= 0 {
		rest := s[i+len(" in goroutine "):]
		j := 0
		for j < len(rest) && rest[j] >= '0' && rest[j] <= '9' {
			j++
		}
		parent, _ = strconv.ParseInt(rest[:j], 10, 64)
	}
	return gid, parent
}

func Gid() int64 { g, _ := gidAndParent(); return g }

func (c *Capture) Write(p []byte) (int, error) {
	c.mu.Lock()
	c.Bytes += int64(len(p))
	c.Records++
	c.scanLocked("log", p)
	c.tail = append(c.tail, p...)
	if len(c.tail) > 2*c.keepTail {
		c.tail = append([]byte(nil), c.tail[len(c.tail)-c.keepTail:]...)
	}
	isPanic := bytes.HasPrefix(p, []byte("[PANIC] "))
	if isPanic {
		gid, parent := gidAndParent()
		msg := string(p)
		first := msg
		if i := strings.IndexByte(first, '\n'); i >= 0 {
			// keep the [error]: line too, it carries the cause
			rest := first[i+1:]
			first = first[:i]
			if strings.HasPrefix(rest, "[error]: ") {
				if j := strings.IndexByte(rest, '\n'); j >= 0 {
					first += " " + rest[:j]
				}
			}
		}
		c.aborts = append(c.aborts, Abort{Gid: gid, Parent: parent, Msg: first, Full: msg})
	}
	c.mu.Unlock()
	if isPanic {
		runtime.Goexit()
	}
	return len(p), nil
}

func (c *Capture) Tail(n int) string {
	c.mu.Lock()
	defer c.mu.Unlock()
	t := c.tail
	if len(t) > n {
		t = t[len(t)-n:]
	}
	return string(t)
}

// TakeAborts returns and clears the recorded aborts.
func (c *Capture) TakeAborts() []Abort {
	c.mu.Lock()
	defer c.mu.Unlock()
	a := c.aborts
	c.aborts = nil
	return a
}

// TakeAbortsOf removes and returns aborts whose goroutine or creating goroutine is in gids.
func (c *Capture) TakeAbortsOf(match func(a Abort) bool) []Abort {
	c.mu.Lock()
	defer c.mu.Unlock()
	var out, keep []Abort
	for _, a := range c.aborts {
		if match(a) {
			out = append(out, a)
		} else {
			keep = append(keep, a)
		}
	}
	c.aborts = keep
	return out
}

func (c *Capture) TakeLeaks() []string {
	c.mu.Lock()
	defer c.mu.Unlock()
	l := c.Leaks
	c.Leaks = nil
	return l
}

func (c *Capture) Stats() (bytes, records int64) {
	c.mu.Lock()
	defer c.mu.Unlock()
	return c.Bytes, c.Records
}

// Result of running tool code on a harness-owned goroutine.
type Result struct {
	Completed bool // f returned normally
	Aborted   bool // goroutine ended through the tool's abort path ([PANIC] record)
	AbortMsg  string
	Panic     interface{} // Go runtime panic value, if any
	Stack     string
	Gid       int64
}

func (r Result) String() string {
	switch {
	case r.Completed:
		return "completed"
	case r.Panic != nil:
		return fmt.Sprintf("runtime panic: %v\n%s", r.Panic, r.Stack)
	case r.Aborted:
		return "aborted: " + r.AbortMsg
	}
	return "goexit without abort record"
}

// Start runs f on a new goroutine and returns a channel delivering the result.
func Start(f func()) <-chan Result {
	Install()
	ch := make(chan Result, 1)
	go func() {
		var r Result
		r.Gid = Gid()
		defer func() {
			if !r.Completed {
				if p := recover(); p != nil {
					r.Panic = p
					buf := make([]byte, 1<<14)
					r.Stack = string(buf[:runtime.Stack(buf, false)])
				} else {
					ab := Cap.TakeAbortsOf(func(a Abort) bool { return a.Gid == r.Gid })
					if len(ab) > 0 {
						r.Aborted = true
						r.AbortMsg = ab[len(ab)-1].Msg
					}
				}
			}
			ch <- r
		}()
		f()
		r.Completed = true
	}()
	return ch
}

// Run runs f on a new goroutine and waits for it.
func Run(f func()) Result { return <-Start(f) }

// RunTree is Run, and additionally turns an abort on a goroutine created directly by f's
// goroutine into the result (the tool often aborts on helper goroutines it starts itself).
func RunTree(f func()) Result {
	r := Run(f)
	if ab := Cap.TakeAbortsOf(func(a Abort) bool { return a.Parent == r.Gid }); len(ab) > 0 && r.Completed {
		r.Completed, r.Aborted, r.AbortMsg = false, true, ab[0].Msg
	}
	return r
}
