package ref

// LZFCompress is a small greedy LZF compressor (format of liblzf as used by
// Redis). It exists so that LZF-encoded strings can be generated; it returns nil
// when the input cannot be made smaller (as Redis then stores the string raw, a
// caller may still use a non-shrinking encoding produced by LZFLiteral).
func LZFCompress(in []byte) []byte {
	n := len(in)
	if n < 4 {
		return nil
	}
	var out []byte
	table := map[uint32]int{}
	litStart := 0
	flushLit := func(end int) {
		for litStart < end {
			l := end - litStart
			if l > 32 {
				l = 32
			}
			out = append(out, byte(l-1))
			out = append(out, in[litStart:litStart+l]...)
			litStart += l
		}
	}
	i := 0
	for i+2 < n {
		h := uint32(in[i])<<16 | uint32(in[i+1])<<8 | uint32(in[i+2])
		ref, ok := table[h]
		table[h] = i
		if ok && i-ref-1 < 8192 && ref < i {
			// match length
			maxLen := n - i
			if maxLen > 264 {
				maxLen = 264
			}
			l := 3
			for l < maxLen && in[ref+l] == in[i+l] {
				l++
			}
			flushLit(i)
			off := i - ref - 1
			ml := l - 2
			if ml < 7 {
				out = append(out, byte(ml<<5)|byte(off>>8), byte(off))
			} else {
				out = append(out, byte(7<<5)|byte(off>>8), byte(ml-7), byte(off))
			}
			i += l
			litStart = i
			continue
		}
		i++
	}
	flushLit(n)
	return out
}

// LZFLiteral encodes the input as LZF literal runs only (valid LZF, never smaller).
func LZFLiteral(in []byte) []byte {
	var out []byte
	for p := 0; p < len(in); {
		l := len(in) - p
		if l > 32 {
			l = 32
		}
		out = append(out, byte(l-1))
		out = append(out, in[p:p+l]...)
		p += l
	}
	return out
}

// LZFDecompress is used only to self-check the compressor.
func LZFDecompress(in []byte, outLen int) ([]byte, bool) {
	out := make([]byte, 0, outLen)
	for i := 0; i < len(in); {
		ctrl := int(in[i])
		i++
		if ctrl < 32 {
			l := ctrl + 1
			if i+l > len(in) {
				return nil, false
			}
			out = append(out, in[i:i+l]...)
			i += l
		} else {
			l := ctrl >> 5
			if l == 7 {
				if i >= len(in) {
					return nil, false
				}
				l += int(in[i])
				i++
			}
			if i >= len(in) {
				return nil, false
			}
			ref := len(out) - ((ctrl & 0x1f) << 8) - int(in[i]) - 1
			i++
			if ref < 0 {
				return nil, false
			}
			for k := 0; k < l+2; k++ {
				out = append(out, out[ref+k])
			}
		}
	}
	return out, len(out) == outLen
}
