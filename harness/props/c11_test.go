//go:build verif

package props

import (
	"bytes"
	"encoding/binary"
	"fmt"
	"hash"
	"strings"
	"testing"

	repocrc "github.com/alibaba/RedisShake/pkg/libs/cupcake/rdb/crc64"
	"github.com/alibaba/RedisShake/pkg/rdb"
	"github.com/alibaba/RedisShake/pkg/rdb/digest"
	utils "github.com/alibaba/RedisShake/redis-shake/common"
	modcrc "github.com/cupcake/rdb/crc64"
	"pgregory.net/rapid"

	"verif/harness/gen"
	"verif/harness/ref"
	"verif/harness/stats"
)

func splitPoints(t *rapid.T, n int) []int {
	k := rapid.IntRange(0, 6).Draw(t, "nsplit")
	pts := []int{0}
	for i := 0; i < k && n > 0; i++ {
		pts = append(pts, rapid.IntRange(0, n).Draw(t, "split"))
	}
	pts = append(pts, n)
	// sort
	for i := range pts {
		for j := i + 1; j < len(pts); j++ {
			if pts[j] < pts[i] {
				pts[i], pts[j] = pts[j], pts[i]
			}
		}
	}
	return pts
}

// c11Digest: every CRC-64 implementation the tool links equals the reference, under any chunking.
func c11Digest(t *rapid.T) {
	var data []byte
	if rapid.IntRange(0, 9).Draw(t, "big") == 0 {
		unit := rapid.SliceOfN(rapid.Byte(), 1, 64).Draw(t, "unit")
		data = bytes.Repeat(unit, rapid.IntRange(1, 1000).Draw(t, "rep"))
	} else {
		data = rapid.SliceOfN(rapid.Byte(), 0, 300).Draw(t, "data")
	}
	want := ref.CRC64(0, data)
	pts := splitPoints(t, len(data))
	impls := map[string]hash.Hash64{"pkg/rdb/digest": digest.New(), "repo cupcake/crc64": repocrc.New(), "module cupcake/crc64": modcrc.New()}
	for name, h := range impls {
		for i := 0; i+1 < len(pts); i++ {
			h.Write(data[pts[i]:pts[i+1]])
		}
		if got := h.Sum64(); got != want {
			violation(t, "C11", "digest:"+name, "%s over %d bytes in %d writes = %#x, reference CRC-64 = %#x", name, len(data), len(pts)-1, got, want)
			return
		}
		if s := h.Sum(nil); len(s) != 8 {
			violation(t, "C11", "digest-sum:"+name, "%s Sum returned %d bytes", name, len(s))
			return
		} else if le, be := binary.LittleEndian.Uint64(s), binary.BigEndian.Uint64(s); le != want && be != want {
			violation(t, "C11", "digest-sum:"+name, "%s Sum bytes % x encode neither LE nor BE of %#x", name, s, want)
			return
		}
		h.Reset()
		h.Write(data)
		if got := h.Sum64(); got != want {
			violation(t, "C11", "digest-reset:"+name, "%s after Reset = %#x want %#x", name, got, want)
			return
		}
	}
	if got := repocrc.Digest(data); got != want {
		violation(t, "C11", "digest:repo-Digest", "repo crc64.Digest = %#x want %#x", got, want)
		return
	}
	if got := modcrc.Digest(data); got != want {
		violation(t, "C11", "digest:module-Digest", "module crc64.Digest = %#x want %#x", got, want)
		return
	}
	stats.C.Case(len(data) >= 9 && len(pts) > 2, stats.Hash(data), "digest")
}

// spanFile: a small RDB written locally so that the positions of pure data bytes are known.
type spanFile struct {
	bytes []byte
	data  [][2]int // [from,to) of raw content bytes / expiry values
	keys  int
}

func drawSpanFile(t *rapid.T) *spanFile {
	sf := &spanFile{}
	b := []byte(fmt.Sprintf("REDIS%04d", rapid.IntRange(1, 9).Draw(t, "ver")))
	rawstr := func(s []byte) {
		b = gen.AppendLen(b, uint64(len(s)), 0)
		if len(s) > 0 {
			sf.data = append(sf.data, [2]int{len(b), len(b) + len(s)})
		}
		b = append(b, s...)
	}
	// content that is never integer- or LZF-encoded: we write it raw ourselves
	content := func(l string) []byte { return rapid.SliceOfN(rapid.Byte(), 0, 12).Draw(t, l) }
	ndb := rapid.IntRange(1, 3).Draw(t, "ndb")
	for d := 0; d < ndb; d++ {
		b = append(b, gen.OpSelectDB)
		b = gen.AppendLen(b, uint64(rapid.IntRange(0, 15).Draw(t, "db")), 0)
		nk := rapid.IntRange(1, 4).Draw(t, "nk")
		for k := 0; k < nk; k++ {
			sf.keys++
			if rapid.Bool().Draw(t, "exp") {
				b = append(b, gen.OpExpireMs)
				sf.data = append(sf.data, [2]int{len(b), len(b) + 8})
				b = binary.LittleEndian.AppendUint64(b, rapid.Uint64().Draw(t, "ms"))
			}
			switch rapid.IntRange(0, 2).Draw(t, "ty") {
			case 0:
				b = append(b, gen.TString)
				rawstr(content("key"))
				rawstr(content("val"))
			case 1:
				b = append(b, gen.TList)
				rawstr(content("key"))
				n := rapid.IntRange(0, 4).Draw(t, "n")
				b = gen.AppendLen(b, uint64(n), 0)
				for i := 0; i < n; i++ {
					rawstr(content("el"))
				}
			default:
				b = append(b, gen.THash)
				rawstr(content("key"))
				n := rapid.IntRange(0, 3).Draw(t, "n")
				b = gen.AppendLen(b, uint64(n), 0)
				for i := 0; i < n; i++ {
					rawstr(content("f"))
					rawstr(content("v"))
				}
			}
		}
	}
	b = append(b, gen.OpEOF)
	sf.data = append(sf.data, [2]int{len(b), len(b) + 8}) // the checksum itself
	b = binary.LittleEndian.AppendUint64(b, ref.CRC64(0, b))
	sf.bytes = b
	return sf
}

func loadOK(data []byte, sizes []int) (int, error) {
	entries, err, res := loadAll(&gen.ChunkReader{Data: data, Sizes: sizes})
	if !res.Completed {
		return len(entries), fmt.Errorf("aborted: %v", res)
	}
	return len(entries), err
}

// c11RdbCorruption: intact file accepted; every single-byte substitution at every data/trailer position rejected.
func c11RdbCorruption(t *rapid.T) {
	sf := drawSpanFile(t)
	sizes := gen.ChunkSizes().Draw(t, "chunks")
	if n, err := loadOK(sf.bytes, sizes); err != nil || n != sf.keys {
		violation(t, "C11", "intact-rejected", "intact RDB (%d keys) -> %d entries, err %v: % x", sf.keys, n, err, sf.bytes)
		return
	}
	// the same intact file through a reader that hands out its last bytes together with io.EOF
	if entries, err, res := loadAll(&gen.ChunkReader{Data: sf.bytes, Sizes: sizes, EOFWithData: true}); err != nil || !res.Completed || len(entries) != sf.keys {
		violation(t, "C11", "intact-rejected:eof-with-data", "intact RDB (%d keys) read through a source that returns its last bytes together with io.EOF -> %d entries, err %v %v", sf.keys, len(entries), err, res)
		return
	}
	tried := 0
	for _, sp := range sf.data {
		for pos := sp[0]; pos < sp[1]; pos++ {
			repl := rapid.Byte().Draw(t, "repl")
			if repl == sf.bytes[pos] {
				repl ^= 0x01
			}
			m := append([]byte{}, sf.bytes...)
			m[pos] = repl
			tried++
			if _, err := loadOK(m, sizes); err == nil {
				where := "data"
				if pos >= len(sf.bytes)-8 {
					where = "trailer"
				}
				violation(t, "C11", "corruption-accepted:"+where, "RDB with byte %d changed %#x->%#x is accepted: % x", pos, sf.bytes[pos], repl, m)
				return
			}
		}
	}
	// whole-trailer replacements
	n := len(sf.bytes)
	crc := binary.LittleEndian.Uint64(sf.bytes[n-8:])
	for name, v := range map[string]uint64{"zero": 0, "ones": ^uint64(0), "plus1": crc + 1, "byteswapped": binary.BigEndian.Uint64(sf.bytes[n-8:])} {
		if v == crc {
			continue
		}
		m := append([]byte{}, sf.bytes...)
		binary.LittleEndian.PutUint64(m[n-8:], v)
		tried++
		if _, err := loadOK(m, sizes); err == nil {
			violation(t, "C11", "trailer-replaced:"+name, "RDB whose checksum %#x was replaced by %#x is accepted", crc, v)
			return
		}
	}
	// a trailer that is missing or cut short is corruption too: nothing was compared
	for cut := 1; cut <= 8; cut++ {
		tried++
		if _, err := loadOK(sf.bytes[:n-cut], sizes); err == nil {
			violation(t, "C11", "trailer-truncated", "RDB whose 8-byte checksum trailer was cut to %d bytes is accepted", 8-cut)
			return
		}
	}
	stats.C.Count("rdb_substitutions_tried", int64(tried))
	stats.C.Case(sf.keys >= 3, stats.Hash(sf.bytes), "rdb-corruption")
	if sf.keys >= 3 && len(sf.bytes) < 200 {
		stats.C.Sample(fmt.Sprintf("rdb %d keys, %d data/trailer positions each substituted once: % x", sf.keys, tried, sf.bytes))
	}
}

func isChecksumError(err error) bool {
	if err == nil {
		return false
	}
	m := err.Error()
	return strings.Contains(m, "invalid dump length") || strings.Contains(m, "invalid version") || strings.Contains(m, "invalid CRC checksum")
}

func checkersAccept(p []byte) (decodeOK, cvcOK bool, derr, cerr error) {
	_, derr = rdb.DecodeDump(p)
	_, _, cerr = utils.CheckVersionChecksum(p)
	return derr == nil, cerr == nil, derr, cerr
}

// c11Payload: emitted payloads verify; any altered byte, unsupported version or short payload is rejected.
func c11Payload(t *rapid.T) {
	var payload []byte
	var origin string
	if rapid.Bool().Draw(t, "fromLoader") {
		// payload produced by the tool's parser from a generated file
		f := gen.DrawFile(t, gen.FileOpts{MaxDBs: 1, MaxKeys: 3, MaxElems: 12, ClassicOnly: true, NoMeta: true, NoLua: true})
		entries, err, res := loadAll(bytes.NewReader(f.Bytes))
		if err != nil || !res.Completed || len(entries) == 0 {
			return
		}
		payload = entries[rapid.IntRange(0, len(entries)-1).Draw(t, "which")].Value
		origin = "loader"
	} else {
		v := gen.DrawValue(t, "", 12)
		var err error
		payload, err = rdb.EncodeDump(toObj(v))
		if err != nil {
			t.Fatalf("EncodeDump: %v", err)
		}
		origin = "EncodeDump"
		// a payload stays what it was while its holder keeps it: later encodings must not write into it
		snap := append([]byte{}, payload...)
		for i := 0; i < 3; i++ {
			if _, err := rdb.EncodeDump(toObj(gen.DrawValue(t, "", 12))); err != nil {
				t.Fatalf("EncodeDump: %v", err)
			}
		}
		if !bytes.Equal(payload, snap) {
			violation(t, "C11", "payload-overwritten:EncodeDump", "a payload returned by EncodeDump (%d bytes) changed after later EncodeDump calls (first difference at %d): its trailer no longer covers its bytes", len(snap), firstDiff(payload, snap))
			return
		}
	}
	dOK, cOK, derr, cerr := checkersAccept(payload)
	if !dOK && !isChecksumError(derr) {
		// the payload passed verifyDump and failed later while being parsed: that is C12's matter, not a checksum verdict
		dOK = true
		stats.C.Count("payload_parse_errors_left_to_C12", 1)
	}
	if !dOK || !cOK {
		violation(t, "C11", "payload-rejected:"+origin, "payload emitted by %s fails its checkers: DecodeDump err=%v CheckVersionChecksum err=%v: % x", origin, derr, cerr, payload)
		return
	}
	n := len(payload)
	if crc := binary.LittleEndian.Uint64(payload[n-8:]); crc != ref.CRC64(0, payload[:n-8]) {
		violation(t, "C11", "payload-crc:"+origin, "payload trailer %#x is not the reference CRC-64 of the covered bytes", crc)
		return
	}
	tried := 0
	for pos := 0; pos < n; pos++ {
		repl := rapid.Byte().Draw(t, "repl")
		if repl == payload[pos] {
			repl ^= 0x80
		}
		m := append([]byte{}, payload...)
		m[pos] = repl
		tried++
		if d, c, _, _ := checkersAccept(m); d || c {
			violation(t, "C11", fmt.Sprintf("payload-corruption-accepted:decode=%v,cvc=%v", d, c), "payload with byte %d/%d changed is accepted (DecodeDump ok=%v, CheckVersionChecksum ok=%v)", pos, n, d, c)
			return
		}
	}
	// versions above the supported one, checksum recomputed so that only the version can reject
	for _, ver := range []uint16{7, 10, 11, 255, 256, 256 + 6, 256 + 9, 0x0206, 0xff06, 0xffff, uint16(rapid.IntRange(10, 65535).Draw(t, "ver"))} {
		m := append([]byte{}, payload[:n-10]...)
		m = binary.LittleEndian.AppendUint16(m, ver)
		m = binary.LittleEndian.AppendUint64(m, ref.CRC64(0, m))
		d, c, _, _ := checkersAccept(m)
		tried++
		if d {
			violation(t, "C11", "version-accepted:DecodeDump", "payload with version %d accepted by DecodeDump", ver)
			return
		}
		if c && ver > 9 {
			sig := "version-accepted:CheckVersionChecksum"
			if ver >= 256 {
				sig = "version-accepted:CheckVersionChecksum:high-byte"
			}
			if violation(t, "C11", sig, "payload with version %d (%#x) and a matching checksum accepted by CheckVersionChecksum", ver, ver) {
				return
			}
		}
	}
	// shorter than the trailer / truncated trailer
	for k := 0; k < 10 && k <= n; k++ {
		d, c, _, _ := checkersAccept(payload[:k])
		tried++
		if d || c {
			violation(t, "C11", "short-accepted", "%d-byte payload accepted", k)
			return
		}
	}
	for k := 1; k <= 10 && k < n; k++ {
		d, c, _, _ := checkersAccept(payload[:n-k])
		tried++
		if d || c {
			violation(t, "C11", "truncated-accepted", "payload truncated by %d bytes accepted", k)
			return
		}
	}
	stats.C.Count("payload_alterations_tried", int64(tried))
	stats.C.Case(n >= 14, stats.Hash(payload), "payload:"+origin)
	if n > 30 && n < 120 {
		stats.C.Sample(fmt.Sprintf("payload from %s, %d bytes, %d alterations: % x", origin, n, tried, payload))
	}
}

func TestC11(t *testing.T) {
	t.Run("digest", func(t *testing.T) { rapid.Check(t, c11Digest) })
	t.Run("rdb", func(t *testing.T) { rapid.Check(t, c11RdbCorruption) })
	t.Run("payload", func(t *testing.T) { rapid.Check(t, c11Payload) })
}

func TestC11Regress(t *testing.T) {
	check := []byte("123456789")
	for name, h := range map[string]hash.Hash64{"pkg/rdb/digest": digest.New(), "repo cupcake/crc64": repocrc.New(), "module cupcake/crc64": modcrc.New()} {
		h.Write(check)
		if h.Sum64() != 0xe9c6d914c4b8d9ca {
			t.Fatalf("property C11 violated [sig=digest:%s]: check value %#x", name, h.Sum64())
		}
	}
	// fixed: version high byte
	p, _ := rdb.EncodeDump(rdb.String("x"))
	m := append([]byte{}, p[:len(p)-10]...)
	m = binary.LittleEndian.AppendUint16(m, 0x0106)
	m = binary.LittleEndian.AppendUint64(m, ref.CRC64(0, m))
	if _, _, err := utils.CheckVersionChecksum(m); err == nil {
		violation(t, "C11", "version-accepted:CheckVersionChecksum:high-byte", "payload with version 0x0106 and matching checksum accepted by CheckVersionChecksum")
	}
}
