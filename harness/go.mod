module verif/harness

go 1.23

require (
	github.com/alibaba/RedisShake v0.0.0
	github.com/garyburd/redigo v1.6.2
	pgregory.net/rapid v1.3.0
)

replace github.com/alibaba/RedisShake => /repo/src
