//go:build verif

package props

import (
	"fmt"
	"strings"

	"github.com/alibaba/RedisShake/redis-shake/dbSync/slot"
	"pgregory.net/rapid"

	"verif/harness/stats"
)

// c19NodeFormat: a formatted shard descriptor never shows a configured password, whatever the password's text is,
// including passwords whose text also occurs in one of the (non-secret) addresses of the node. An occurrence of the
// password text in the output is legitimate only where it lies inside a printed address.
func c19NodeFormat(t *rapid.T) {
	host := rapid.SampledFrom([]string{"10.0.12.7", "127.0.0.1", "cache-a.internal", "redis-src-01", "r7.example.org", "192.168.100.25"})
	addr := func(l string) string {
		return fmt.Sprintf("%s:%d", host.Draw(t, l+"-host"), rapid.SampledFrom([]int{6379, 6380, 7000, 20441, 16379}).Draw(t, l+"-port"))
	}
	n := slot.SyncNode{Id: rapid.IntRange(0, 40).Draw(t, "id"), Source: addr("source"), SlotLeftBoundary: rapid.IntRange(0, 8000).Draw(t, "l"), SlotRightBoundary: rapid.IntRange(8000, 16383).Draw(t, "r")}
	for i, k := 0, rapid.IntRange(1, 3).Draw(t, "targets"); i < k; i++ {
		n.Target = append(n.Target, addr(fmt.Sprintf("target%d", i)))
	}
	for i, k := 0, rapid.IntRange(0, 2).Draw(t, "slaves"); i < k; i++ {
		n.Slaves = append(n.Slaves, addr(fmt.Sprintf("slave%d", i)))
	}
	addrs := append(append([]string{n.Source}, n.Target...), n.Slaves...)
	related := false
	pw := func(l string) string {
		switch rapid.SampledFrom([]string{"random", "random", "in-address", "in-address", "empty"}).Draw(t, l+"-kind") {
		case "empty":
			return ""
		case "in-address":
			a := rapid.SampledFrom(addrs).Draw(t, l+"-of")
			ln := rapid.IntRange(6, len(a)).Draw(t, l+"-len")
			at := rapid.IntRange(0, len(a)-ln).Draw(t, l+"-at")
			related = true
			return a[at : at+ln]
		}
		return rapid.StringMatching(`[A-Za-z0-9_!@#%^&+=-]{6,14}`).Draw(t, l)
	}
	n.SourcePassword = pw("source-password")
	if rapid.IntRange(0, 5).Draw(t, "same") == 3 {
		n.TargetPassword = n.SourcePassword
	} else {
		n.TargetPassword = pw("target-password")
	}
	outs := map[string]string{
		"%v":          fmt.Sprintf("%v", n),
		"%+v":         fmt.Sprintf("%+v", n),
		"%s":          fmt.Sprintf("%s", n),
		"%v(pointer)": fmt.Sprintf("%v", &n),
		"Sprint":      fmt.Sprint("node ", n),
		"error":       fmt.Errorf("can't run node[%v]: %w", n, fmt.Errorf("refused")).Error(),
		"String":      n.String(),
	}
	covered := func(out string, i, l int) bool {
		for _, a := range addrs {
			for from := 0; ; {
				j := strings.Index(out[from:], a)
				if j < 0 {
					break
				}
				j += from
				if j <= i && i+l <= j+len(a) {
					return true
				}
				from = j + 1
			}
		}
		return false
	}
	for _, f := range []string{"%v", "%+v", "%s", "%v(pointer)", "Sprint", "error", "String"} {
		out := outs[f]
		for which, p := range map[string]string{"source": n.SourcePassword, "target": n.TargetPassword} {
			if p == "" {
				continue
			}
			for from := 0; ; {
				i := strings.Index(out[from:], p)
				if i < 0 {
					break
				}
				i += from
				if !covered(out, i, len(p)) {
					kind := "unrelated-password"
					if related {
						kind = "password-text-occurs-in-address"
					}
					violation(t, "C19", "node-format:"+kind, "the %s password %q is shown by a shard descriptor formatted with %s: %q", which, p, f, out)
					return
				}
				from = i + 1
			}
		}
	}
	stats.C.Case(related || n.SourcePassword == n.TargetPassword, stats.HashS(fmt.Sprintf("%+v|%s|%s", addrs, n.SourcePassword, n.TargetPassword)), "node-format")
}
