// Package stats collects per-run counters of a property check and writes
// them as JSON for the driver, which turns them into the evidence file.
package stats

import (
	"encoding/json"
	"hash/fnv"
	"os"
	"sort"
	"sync"
)

type Collector struct {
	mu        sync.Mutex
	Evals     int64
	NT        map[uint64]struct{}
	Classes   map[string]int64
	Samples   []string
	Known     map[string]int64
	Counters  map[string]int64
	Excluded  map[string]int64
	maxSample int
}

var C = New()

func New() *Collector {
	return &Collector{NT: map[uint64]struct{}{}, Classes: map[string]int64{}, Known: map[string]int64{},
		Counters: map[string]int64{}, Excluded: map[string]int64{}, maxSample: 6}
}

func Hash(parts ...[]byte) uint64 {
	h := fnv.New64a()
	for _, p := range parts {
		h.Write(p)
		h.Write([]byte{0xff, 0x00})
	}
	return h.Sum64()
}

func HashS(s string) uint64 { return Hash([]byte(s)) }

// Case records one executed case. nontrivial by the property's stated rule;
// id identifies the case for distinct counting.
func (c *Collector) Case(nontrivial bool, id uint64, classes ...string) {
	c.mu.Lock()
	defer c.mu.Unlock()
	c.Evals++
	if nontrivial {
		c.NT[id] = struct{}{}
	}
	for _, k := range classes {
		c.Classes[k]++
	}
}

func (c *Collector) Class(k string) { c.Add2(c.Classes, k, 1) }

func (c *Collector) Add2(m map[string]int64, k string, n int64) {
	c.mu.Lock()
	defer c.mu.Unlock()
	m[k] += n
}

func (c *Collector) Count(k string, n int64) { c.Add2(c.Counters, k, n) }
func (c *Collector) KnownHit(sig string)     { c.Add2(c.Known, sig, 1) }
func (c *Collector) Exclude(why string)      { c.Add2(c.Excluded, why, 1) }
func (c *Collector) NumSamples() int         { c.mu.Lock(); defer c.mu.Unlock(); return len(c.Samples) }
func (c *Collector) SetMaxSamples(n int)     { c.maxSample = n }

// Sample keeps the first few non-trivial case descriptions.
func (c *Collector) Sample(s string) {
	c.mu.Lock()
	defer c.mu.Unlock()
	if len(c.Samples) < c.maxSample {
		if len(s) > 1500 {
			s = s[:1500] + "...(truncated)"
		}
		c.Samples = append(c.Samples, s)
	}
}

type out struct {
	Evals    int64            `json:"evaluations"`
	NT       []uint64         `json:"nt_hashes"`
	Classes  map[string]int64 `json:"classes"`
	Samples  []string         `json:"samples"`
	Known    map[string]int64 `json:"known_hits"`
	Counters map[string]int64 `json:"counters"`
	Excluded map[string]int64 `json:"excluded"`
}

func (c *Collector) Write(path string) error {
	c.mu.Lock()
	defer c.mu.Unlock()
	o := out{Evals: c.Evals, Classes: c.Classes, Samples: c.Samples, Known: c.Known, Counters: c.Counters, Excluded: c.Excluded}
	for h := range c.NT {
		o.NT = append(o.NT, h)
	}
	sort.Slice(o.NT, func(i, j int) bool { return o.NT[i] < o.NT[j] })
	b, err := json.Marshal(o)
	if err != nil {
		return err
	}
	return os.WriteFile(path, b, 0644)
}
