package gen

import (
	"encoding/binary"
	"fmt"
	"math"

	"pgregory.net/rapid"

	"verif/harness/ref"
)

// Record is what the parser is expected to deliver for one key / script.
type Record struct {
	DB       uint32
	Key      []byte
	Type     byte
	ExpireAt uint64 // ms, 0 = none
	Idle     uint32
	Freq     uint8
	ValBytes []byte // exact serialized value bytes from the file (script body for lua records)
	IsLua    bool
	Logical  *Value // nil for stream / lua
	Label    string
}

// File is a generated RDB file with the records expected from it.
type File struct {
	Version int
	Bytes   []byte
	Records []Record
	Labels  map[string]bool
	NDBs    int
	Opcodes map[string]int
}

type FileOpts struct {
	MaxDBs       int
	MaxKeys      int
	MaxElems     int
	ClassicOnly  bool // no streams (decode mode, C12 logical comparisons)
	NoMeta       bool // no aux/resizedb/module-aux
	NoLua        bool
	SmallDBs     bool // db numbers 0..15 only
	ModuleFloat  bool // allow the FLOAT opcode inside module-aux data
	FiniteScores bool // no +-inf scores
	UniqueKeys   bool // key names unique across all databases
	NoEmpty      bool // no empty collections (they cannot exist in a live Redis)
	SingleHint   bool // never both IDLE and FREQ on one key (Redis saves one or the other)
	KeyGen       *rapid.Generator[[]byte]
}

func dbNumber(t *rapid.T, small bool) uint32 {
	if small {
		return uint32(rapid.IntRange(0, 15).Draw(t, "db"))
	}
	return rapid.SampledFrom([]uint32{0, 0, 1, 2, 3, 7, 15, 63, 64, 65, 300, 16383, 16384, 70000}).Draw(t, "db")
}

func appendModuleAux(t *rapid.T, b []byte, allowFloat bool, labels map[string]bool) []byte {
	b = append(b, OpModuleAux)
	b = AppendLen(b, rapid.Uint64Range(1<<32, math.MaxUint64).Draw(t, "modid"), 0)
	n := rapid.IntRange(0, 5).Draw(t, "modn")
	for i := 0; i < n; i++ {
		ops := []int{1, 2, 4, 5}
		if allowFloat {
			ops = append(ops, 3)
		}
		op := rapid.SampledFrom(ops).Draw(t, "modop")
		b = AppendLen(b, uint64(op), lenForm(t))
		switch op {
		case 1, 2:
			b = AppendLen(b, big64(t, "modint"), lenForm(t))
		case 3:
			b = binary.LittleEndian.AppendUint32(b, math.Float32bits(float32(rapid.Float64Range(-1e6, 1e6).Draw(t, "modf"))))
			labels["module-float"] = true
		case 4:
			b = binary.LittleEndian.AppendUint64(b, rapid.Uint64().Draw(t, "modd"))
		case 5:
			var l string
			b, l = AppendString(t, b, Elem().Draw(t, "mods"))
			labels["str-"+l] = true
		}
	}
	return AppendLen(b, 0, 0) // EOF opcode
}

// DrawFile draws a whole RDB file.
func DrawFile(t *rapid.T, o FileOpts) *File {
	f := &File{Labels: map[string]bool{}, Opcodes: map[string]int{}}
	minV := 1
	need := func(v int) {
		if v > minV {
			minV = v
		}
	}
	var body []byte
	curDB := uint32(0)
	op := func(name string) { f.Opcodes[name]++ }
	meta := func() {
		if o.NoMeta {
			return
		}
		for k := rapid.IntRange(0, 6).Draw(t, "meta"); k >= 4; k-- {
			switch rapid.IntRange(0, 3).Draw(t, "metakind") {
			case 0:
				body = append(body, OpAux)
				var l string
				body, l = AppendString(t, body, []byte(rapid.SampledFrom([]string{"redis-ver", "redis-bits", "ctime", "used-mem", "aof-preamble", "repl-id", "luax", "lu"}).Draw(t, "auxk")))
				f.Labels["str-"+l] = true
				body, l = AppendString(t, body, Elem().Draw(t, "auxv"))
				f.Labels["str-"+l] = true
				need(7)
				op("aux")
			case 1:
				body = append(body, OpResizeDB)
				body = AppendLen(body, uint64(rapid.IntRange(0, 100000).Draw(t, "rs1")), lenForm(t))
				body = AppendLen(body, uint64(rapid.IntRange(0, 100000).Draw(t, "rs2")), lenForm(t))
				need(7)
				op("resizedb")
			case 2:
				body = appendModuleAux(t, body, o.ModuleFloat, f.Labels)
				need(8)
				op("module-aux")
			case 3:
				if o.NoLua {
					continue
				}
				body = append(body, OpAux)
				body = AppendRawString(body, []byte("lua"))
				script := []byte(rapid.SampledFrom([]string{"return 1", "return redis.call('get',KEYS[1])", "return {KEYS[1],ARGV[1]}", "local a=1\nreturn a"}).Draw(t, "lua") + fmt.Sprintf(" --%d", rapid.IntRange(0, 999).Draw(t, "luan")))
				body = AppendRawString(body, script)
				f.Records = append(f.Records, Record{Key: []byte("lua"), Type: OpAux, ValBytes: script, IsLua: true, DB: curDB})
				need(7)
				op("lua")
			}
		}
	}
	meta()
	ndb := rapid.IntRange(0, o.MaxDBs).Draw(t, "ndb")
	f.NDBs = ndb
	usedKeys := map[string]bool{}
	for d := 0; d < ndb; d++ {
		curDB = dbNumber(t, o.SmallDBs)
		body = append(body, OpSelectDB)
		body = AppendLen(body, uint64(curDB), lenForm(t))
		op("selectdb")
		meta()
		nk := rapid.IntRange(0, o.MaxKeys).Draw(t, "nkeys")
		for k := 0; k < nk; k++ {
			var key []byte
			if o.KeyGen != nil {
				key = o.KeyGen.Draw(t, "key")
			} else {
				key = Elem().Draw(t, "key")
			}
			uk := func(k []byte) string {
				if o.UniqueKeys {
					return string(k)
				}
				return fmt.Sprint(curDB, ":", string(k))
			}
			if usedKeys[uk(key)] {
				key = append(append([]byte{}, key...), []byte(fmt.Sprintf("#%d.%d", d, k))...)
			}
			usedKeys[uk(key)] = true
			rec := Record{DB: curDB, Key: key}
			// expiry / idle / freq opcodes
			switch rapid.IntRange(0, 5).Draw(t, "exp") {
			case 0:
				sec := rapid.Uint32().Draw(t, "expsec")
				if sec == 0 {
					sec = 1
				}
				body = append(body, OpExpire)
				body = binary.LittleEndian.AppendUint32(body, sec)
				rec.ExpireAt = uint64(sec) * 1000
				op("expire-s")
			case 1:
				ms := rapid.Uint64Range(1, 1<<62).Draw(t, "expms")
				body = append(body, OpExpireMs)
				body = binary.LittleEndian.AppendUint64(body, ms)
				rec.ExpireAt = ms
				op("expire-ms")
			}
			hints := rapid.IntRange(0, 7).Draw(t, "hints")
			if o.SingleHint && hints == 2 {
				hints = 0
			}
			order := rapid.Bool().Draw(t, "hintorder")
			idle := func() {
				v := rapid.Uint32Range(1, math.MaxUint32).Draw(t, "idle")
				body = append(body, OpIdle)
				body = AppendLen(body, uint64(v), lenForm(t))
				rec.Idle = v
				need(9)
				op("idle")
			}
			freq := func() {
				v := uint8(rapid.IntRange(1, 255).Draw(t, "freq"))
				body = append(body, OpFreq, v)
				rec.Freq = v
				need(9)
				op("freq")
			}
			switch hints {
			case 0:
				idle()
			case 1:
				freq()
			case 2:
				if order {
					idle()
					freq()
				} else {
					freq()
					idle()
				}
			}
			var enc Enc
			if !o.ClassicOnly && rapid.IntRange(0, 9).Draw(t, "stream?") == 0 {
				enc = StreamEnc(t, f.Labels)
			} else {
				v := DrawValue(t, "", o.MaxElems)
				if o.NoEmpty && v.Kind != "string" && v.Len() == 0 {
					v = Value{Kind: "string", Str: []byte("was-empty")}
				}
				if o.FiniteScores && v.Kind == "zset" {
					for i := range v.ZSet {
						if math.IsInf(v.ZSet[i].Score, 0) {
							v.ZSet[i].Score = float64(i) + 0.25
						}
					}
				}
				enc = EncodeValue(t, v, f.Labels)
				rec.Logical = &v
			}
			need(enc.MinV)
			f.Labels[enc.Label] = true
			rec.Type = enc.Type
			rec.ValBytes = enc.Bytes
			rec.Label = enc.Label
			body = append(body, enc.Type)
			var l string
			body, l = AppendString(t, body, key)
			f.Labels["key-"+l] = true
			body = append(body, enc.Bytes...)
			f.Records = append(f.Records, rec)
			if rapid.IntRange(0, 6).Draw(t, "midmeta") == 0 {
				meta()
			}
		}
	}
	meta()
	f.Version = rapid.IntRange(minV, MaxRdbVersion).Draw(t, "version")
	out := []byte(fmt.Sprintf("REDIS%04d", f.Version))
	out = append(out, body...)
	out = append(out, OpEOF)
	out = binary.LittleEndian.AppendUint64(out, ref.CRC64(0, out))
	f.Bytes = out
	return f
}
