//go:build verif

package props

import (
	"fmt"
	"sort"
	"strconv"
	"strings"
	"sync"
	"testing"
	"time"

	"github.com/alibaba/RedisShake/redis-shake/checkpoint"
	utils "github.com/alibaba/RedisShake/redis-shake/common"
	"pgregory.net/rapid"

	"verif/harness/logcap"
	"verif/harness/mredis"
	"verif/harness/stats"
)

var debugC04 = false

const c04RunID = "c04c04c04c04c04c04c04c04c04c04c04c04c04c0"

// ckState is the newest checkpoint of our source found in a model target.
type ckState struct {
	found  bool
	offset int64
	db     int
	runid  string
	hasRun bool
	hasVer bool
}

func readCheckpoint(srv *mredis.Server, name string) ckState {
	return readCheckpointFor(srv, name, incrSource)
}

func readCheckpointFor(srv *mredis.Server, name, source string) ckState {
	var st ckState
	srv.Lock()
	defer srv.Unlock()
	var dbs []int
	for n := range srv.DBs {
		dbs = append(dbs, n)
	}
	sort.Ints(dbs)
	for _, n := range dbs {
		e := srv.DBs[n][name]
		if e == nil || e.Kind != "hash" {
			continue
		}
		o, ok := e.Hash[source+"-"+utils.CheckpointOffset]
		if !ok {
			continue
		}
		off, _ := strconv.ParseInt(o, 10, 64)
		if !st.found || off > st.offset {
			st = ckState{found: true, offset: off, db: n}
			st.runid, st.hasRun = e.Hash[source+"-"+utils.CheckpointRunId]
			_, st.hasVer = e.Hash[source+"-"+utils.CheckpointVersion]
		}
	}
	return st
}

// dataLog extracts the data commands a model target applied, in order (tool-own commands left out).
func dataLog(srv *mredis.Server, ckName string) []applied {
	var out []applied
	for _, c := range srv.LogCopy() {
		switch c.Name {
		case "auth", "select", "multi", "exec", "ping", "info", "hgetall", "exists", "hdel":
			continue
		}
		if c.Name == "hset" && len(c.Argv) == 4 && string(c.Argv[1]) == ckName && strings.HasPrefix(string(c.Argv[2]), incrSource+"-") {
			continue
		}
		out = append(out, applied{db: c.DB, name: c.Name, args: c.Argv[1:]})
	}
	return out
}

type c04Outcome struct {
	sig, msg string
	cuts     int
	groups   int
	restarts int
	dbs      int
	multi    bool
}

// perDB splits a command sequence by database.
func perDB(a []applied) map[int][]applied {
	m := map[int][]applied{}
	for _, x := range a {
		m[x.db] = append(m[x.db], x)
	}
	return m
}

func sameSeq(a, b []applied) (int, bool) {
	for i := 0; i < len(a) || i < len(b); i++ {
		if i >= len(a) || i >= len(b) || !sameApplied(a[i], b[i]) {
			return i, false
		}
	}
	return 0, true
}

func runC04Script(c incrConf, sc c03Script, startOffset int64, restartPicks []int) c04Outcome {
	var out c04Outcome
	srv := newIncrTarget()
	srv.KeepRaw = true
	in := startIncr(srv, true, c04RunID, 0, startOffset)
	defer func() { in.stop(); go in.reap() }()
	want := withoutPings(expectedApplied(sc.st, c, -1)) // keep-alives carry no data: C04 compares data commands only
	in.feed(sc.st.bytes, sc.splits, sc.delays)
	in.waitData(len(want), 5*time.Second)
	// the last group's EXEC follows its commands in the same flush; give it a moment
	time.Sleep(40 * time.Millisecond)
	if ab := in.aborts(); len(ab) > 0 {
		out.sig, out.msg = "abort", "the syncer aborted: "+ab[0].Msg
		return out
	}
	full := dataLog(srv, in.ckName)
	if idx, ok := sameSeq(full, want); !ok {
		out.sig, out.msg = "uninterrupted-run-differs", fmt.Sprintf("uninterrupted run: position %d differs from the reference (C03 oracle)", idx)
		return out
	}
	// the exact command sequence the target received on the sender's connection
	var raw []byte
	srv.Lock()
	for _, cs := range srv.Conns {
		if len(cs.Raw) > len(raw) {
			raw = cs.Raw
		}
	}
	raw = append([]byte{}, raw...)
	srv.Unlock()
	cmds, _ := mredis.ParseCommands(raw)
	out.cuts = len(cmds) + 1
	for _, s := range sc.st.cmds {
		if s.name() == "multi" {
			out.multi = true
		}
	}
	// (a) every cut position: replay the prefix into a fresh model with MULTI/EXEC semantics
	cutsInfo, groups, sig, msg := checkCuts(nil, cmds, sc, c, want, startOffset, in.ckName)
	out.groups = groups
	if sig != "" {
		out.sig, out.msg = sig, msg
		return out
	}
	dbset := map[int]bool{}
	for _, w := range want {
		dbset[w.db] = true
	}
	out.dbs = len(dbset)
	// (b) restart from a subset of cuts
	var picks []int
	seen := map[int]bool{}
	addPick := func(i int) {
		if i >= 0 && i < len(cutsInfo) && !seen[i] {
			seen[i] = true
			picks = append(picks, i)
		}
	}
	for i, ci := range cutsInfo { // always: a cut inside a transaction, right after a SELECT, before the first checkpoint
		if ci.inTx && len(picks) < 2 {
			addPick(i)
		}
		if ci.afterSelect && len(picks) < 3 {
			addPick(i)
		}
	}
	for _, p := range restartPicks {
		if len(cutsInfo) > 0 {
			addPick(p % len(cutsInfo))
		}
	}
	if len(picks) > 7 {
		picks = picks[:7]
	}
	type rres struct{ sig, msg string }
	results := make([]rres, len(picks))
	var wg sync.WaitGroup
	for k, cut := range picks {
		wg.Add(1)
		go func(k, cut int) {
			defer wg.Done()
			results[k].sig, results[k].msg = restartFromCut(c, sc, startOffset, cmds[:cut], cutsInfo[cut].ck, want, in.ckName, k%2 == 0)
			if results[k].sig != "" {
				results[k].msg = fmt.Sprintf("cut after %d of %d target commands, then restart: %s", cut, len(cmds), results[k].msg)
			}
		}(k, cut)
	}
	wg.Wait()
	out.restarts = len(picks)
	for _, r := range results {
		if r.sig != "" {
			out.sig, out.msg = r.sig, r.msg
			return out
		}
	}
	return out
}

type cutInfo struct {
	ck          ckState
	applied     int
	inTx        bool
	afterSelect bool
}

// checkCuts replays base (a connection that was cut: queued transaction discarded) and then every
// prefix of cmds into a fresh model, checking the checkpoint/data invariant at every cut position.
func checkCuts(base, cmds [][][]byte, sc c03Script, c incrConf, want []applied, startOffset int64, ckName string) (cutsInfo []cutInfo, groups int, sig, msg string) {
	ends := map[int64]bool{startOffset: true}
	srcDBAt := map[int64]int{startOffset: sc.startDB} // database selected on the source right after each command
	cur := sc.startDB
	for _, s := range sc.st.cmds {
		ends[startOffset+s.end] = true
		if s.name() == "select" && len(s.argv) == 2 {
			cur, _ = strconv.Atoi(string(s.argv[1]))
		}
		srcDBAt[startOffset+s.end] = cur
	}
	sim := mredis.New()
	cs := sim.NewConnState()
	for _, a := range base {
		sim.Exec(cs, a)
	}
	cs = sim.NewConnState()
	lastCk := int64(-1)
	for i := 0; i <= len(cmds); i++ {
		if i > 0 {
			sim.Exec(cs, cmds[i-1])
		}
		ck := readCheckpoint(sim, ckName)
		app := dataLog(sim, ckName)
		limit := startOffset
		if ck.found {
			limit = ck.offset
		}
		j := 0
		for j < len(want) && startOffset+want[j].end <= limit {
			j++
		}
		where := fmt.Sprintf("cut after %d of %d commands received by the target (checkpoint %+v)", i, len(cmds), ck)
		if len(base) > 0 {
			where = "after a restart, " + where
		}
		if idx, ok := sameSeq(app, want[:j]); !ok {
			sig = "cut:data-ahead-of-checkpoint"
			if len(app) < j {
				sig = "cut:data-behind-checkpoint"
			}
			msg = fmt.Sprintf("%s: target holds %d data commands, the source history up to the stored offset has %d (first difference at %d); received so far: %s", where, len(app), j, idx, clipCmds(cmds[:i], 14))
			return
		}
		if ck.found {
			if !ends[ck.offset] {
				sig, msg = "cut:offset-not-a-command-boundary", fmt.Sprintf("%s: stored offset %d is not a source position right after a command", where, ck.offset)
				return
			}
			if d, ok := srcDBAt[ck.offset]; ok && d >= 0 && !c.filt.dbPass(d) {
				// a run resumed from here would not know that a filtered database is selected on the source
				sig, msg = "cut:checkpoint-inside-filtered-db", fmt.Sprintf("%s: the stored offset %d lies where the source has the filtered database %d selected; nothing is forwarded there, so no checkpoint can point there", where, ck.offset, d)
				return
			}
			if !ck.hasRun || ck.runid != c04RunID || !ck.hasVer {
				sig, msg = "cut:runid-or-version-missing", fmt.Sprintf("%s: run id / version missing in the database that holds the newest offset", where)
				return
			}
			if j > 0 && want[j-1].db != ck.db && !selectOrPingClosesGroup(sc, startOffset, want[j-1].end, ck.offset) {
				// the group's last forwarded command ran in want[j-1].db unless a later forwarded SELECT/PING closed the group
				sig, msg = "cut:checkpoint-in-wrong-db", fmt.Sprintf("%s: checkpoint stored in db %d, the group's commands ran in db %d", where, ck.db, want[j-1].db)
				return
			}
			if ck.offset != lastCk {
				groups++
				lastCk = ck.offset
			}
		}
		prevSel := i > 0 && strings.EqualFold(string(cmds[i-1][0]), "select")
		cutsInfo = append(cutsInfo, cutInfo{ck: ck, applied: j, inTx: cs.InTx, afterSelect: prevSel})
	}
	return
}

// selectOrPingClosesGroup: between the last data command (relative end lastEnd) and the stored offset
// only SELECT / PING commands were forwarded; then the checkpoint legitimately sits in the newly selected db.
func selectOrPingClosesGroup(sc c03Script, start, lastEnd, ckOffset int64) bool {
	for _, s := range sc.st.cmds {
		if s.end > lastEnd && start+s.end <= ckOffset {
			if n := s.name(); n == "select" || n == "ping" {
				return true
			}
		}
	}
	return false
}

// restartFromCut builds the target state of a cut, asks the real loader for the resume point,
// restarts a second syncer on the source suffix and compares the outcome with the uninterrupted run.
func restartFromCut(c incrConf, sc c03Script, startOffset int64, prefix [][][]byte, ref ckState, want []applied, ckName string, quiet bool) (string, string) {
	srv := newIncrTarget()
	cs := srv.NewConnState()
	for _, argv := range prefix {
		srv.Exec(cs, argv)
	}
	cs.InTx, cs.Queue = false, nil // the connection is gone: a queued transaction is discarded
	// other syncers share the target: checkpoints of sources whose address ends with / starts with ours, far ahead of ours
	for i, other := range []string{"x" + incrSource, incrSource + "0"} {
		srv.Put(7+i, ckName, &mredis.Entry{Kind: "hash", Hash: map[string]string{
			other + "-" + utils.CheckpointRunId: "ffffffffffffffffffffffffffffffffffffffff", other + "-" + utils.CheckpointVersion: "1",
			other + "-" + utils.CheckpointOffset: "1099511627776"}})
	}
	var runid string
	var offset int64
	var db int
	var err error
	res := logcap.Run(func() {
		runid, offset, db, err = checkpoint.LoadCheckpoint(0, incrSource, []string{srv.Addr()}, "auth", tgtSentinel, ckName, false, false)
	})
	if !res.Completed || err != nil {
		srv.Close()
		return "restart:load-checkpoint", fmt.Sprintf("LoadCheckpoint failed on the state the sender left behind: %v %v", err, res)
	}
	if !ref.found {
		srv.Close()
		if offset != -1 {
			return "restart:loader-disagrees", fmt.Sprintf("no checkpoint stored yet, loader returned offset %d", offset)
		}
		return "", "" // a full sync follows: outside this property
	}
	if offset != ref.offset || runid != ref.runid || db != ref.db {
		srv.Close()
		return "restart:loader-disagrees", fmt.Sprintf("sender stored (runid %q, offset %d, db %d); the loader reads back (runid %q, offset %d, db %d)", ref.runid, ref.offset, ref.db, runid, offset, db)
	}
	srv.KeepRaw = true
	nconnsBefore := len(srv.Conns)
	in := startIncr(srv, true, runid, db, offset)
	defer func() { in.stop(); go in.reap() }()
	suffix := sc.st.bytes[offset-startOffset:]
	if quiet {
		time.Sleep(700 * time.Millisecond) // the source stays silent past a flush tick before the stream continues
	}
	in.feed(suffix, nil, nil)
	in.waitData(len(want), 5*time.Second)
	time.Sleep(40 * time.Millisecond)
	if ab := in.aborts(); len(ab) > 0 {
		return "restart:abort", "the restarted syncer aborted: " + ab[0].Msg
	}
	// the restarted run must keep the cut invariant too (its first group is the re-selection of the recorded db)
	var raw2 []byte
	srv.Lock()
	for _, cs := range srv.Conns[nconnsBefore:] {
		if len(cs.Raw) > len(raw2) {
			raw2 = cs.Raw
		}
	}
	raw2 = append([]byte{}, raw2...)
	srv.Unlock()
	cmds2, _ := mredis.ParseCommands(raw2)
	if _, _, sig, msg := checkCuts(prefix, cmds2, sc, c, want, startOffset, ckName); sig != "" {
		return "restart:" + sig, msg
	}
	got := dataLog(srv, ckName)
	if debugC04 {
		for _, cm := range srv.LogCopy() {
			fmt.Println("   restart-log:", cm, "->", string(cm.Reply.S), cm.Reply.Kind)
		}
	}
	gm, wm := perDB(got), perDB(want)
	for dbn := range wm {
		if idx, ok := sameSeq(gm[dbn], wm[dbn]); !ok {
			sig := "restart:command-lost"
			if len(gm[dbn]) > len(wm[dbn]) {
				sig = "restart:command-applied-twice"
			}
			return sig, fmt.Sprintf("db %d ends with %d data commands, an uninterrupted run applies %d (first difference at %d): %v vs %v", dbn, len(gm[dbn]), len(wm[dbn]), idx, clipApplied(gm[dbn]), clipApplied(wm[dbn]))
		}
	}
	for dbn := range gm {
		if _, ok := wm[dbn]; !ok {
			return "restart:wrong-db", fmt.Sprintf("db %d received %v, an uninterrupted run applies nothing there", dbn, clipApplied(gm[dbn]))
		}
	}
	return "", ""
}

func withoutPings(a []applied) []applied {
	out := a[:0:0]
	for _, x := range a {
		if x.name != "ping" {
			out = append(out, x)
		}
	}
	return out
}

// clipCmds renders the last n of the given commands.
func clipCmds(cmds [][][]byte, n int) string {
	if len(cmds) > n {
		cmds = cmds[len(cmds)-n:]
	}
	var parts []string
	for _, c := range cmds {
		var a []string
		for _, x := range c {
			if len(x) > 24 {
				x = x[:24]
			}
			a = append(a, strconv.Quote(string(x)))
		}
		parts = append(parts, strings.Join(a, " "))
	}
	return strings.Join(parts, " ; ")
}

func clipApplied(a []applied) []applied {
	if len(a) > 8 {
		return a[:8]
	}
	return a
}

func c04Batch(t *rapid.T) {
	c := drawIncrConf(t, true)
	c.apply()
	defer resetIncrConf()
	k := rapid.IntRange(4, 10).Draw(t, "k")
	scripts := make([]c03Script, k)
	offsets := make([]int64, k)
	picks := make([][]int, k)
	for i := range scripts {
		sc := c03Script{startDB: -1}
		sc.st = drawStream(t, streamOpts{maxCmds: 25, startSelect: true, dbs: []int{0, 1, 2, 5, 11, 12}, noCkKeys: true, selectInTx: true})
		sc.splits, sc.delays = drawSplits(t, len(sc.st.bytes), 1200*time.Millisecond)
		scripts[i] = sc
		offsets[i] = rapid.SampledFrom([]int64{0, 1000, 1 << 33}).Draw(t, "startOffset")
		picks[i] = rapid.SliceOfN(rapid.IntRange(0, 1000), 0, 4).Draw(t, "restartCuts")
	}
	outs := make([]c04Outcome, k)
	var wg sync.WaitGroup
	for i := range scripts {
		wg.Add(1)
		go func(i int) { defer wg.Done(); outs[i] = runC04Script(c, scripts[i], offsets[i], picks[i]) }(i)
	}
	wg.Wait()
	for i, o := range outs {
		if o.sig != "" {
			if violation(t, "C04", o.sig, "config %+v; start offset %d; %s: %s", c, offsets[i], scripts[i], o.msg) {
				continue
			}
		}
		nt := o.dbs >= 2 && o.multi && o.groups >= 3
		stats.C.Case(nt, stats.HashS(fmt.Sprintf("%+v %d %s %v", c, offsets[i], scripts[i], picks[i])), "stream")
		stats.C.Count("cut_positions_checked", int64(o.cuts))
		stats.C.Count("restarts_run", int64(o.restarts))
		if nt && len(scripts[i].st.cmds) <= 9 {
			stats.C.Sample(fmt.Sprintf("config %+v; start offset %d; %s => %d cut positions, %d checkpointed groups, %d restarts", c, offsets[i], scripts[i], o.cuts, o.groups, o.restarts))
		}
	}
}

func TestC04(t *testing.T) { rapid.Check(t, c04Batch) }

func TestC04Regress(t *testing.T) {}
