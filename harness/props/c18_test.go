//go:build verif

package props

import (
	"fmt"
	"os"
	"strings"
	"sync"
	"testing"
	"time"

	"github.com/alibaba/RedisShake/pkg/libs/io/backlog"
	"pgregory.net/rapid"

	"verif/harness/stats"
)

type blKind struct {
	name string
	cap  uint64
	mk   func() (*backlog.Backlog, func())
	// fault: the owner closes the backing file behind the backlog's back (file backend only; set by mk)
	fault func()
}

func drawBacklog(t *rapid.T, allowFile bool) *blKind {
	if allowFile && rapid.IntRange(0, 11).Draw(t, "file?") == 0 {
		units := rapid.SampledFrom([]int{1, 1, 3}).Draw(t, "funits")
		req := units*backlog.FileSizeAlign - rapid.SampledFrom([]int{0, 1, 4095, backlog.FileSizeAlign - 1, backlog.FileSizeAlign / 2, backlog.FileSizeAlign - 4097}).Draw(t, "fless")
		bk := &blKind{name: "file", cap: uint64(units * backlog.FileSizeAlign)}
		bk.mk = func() (*backlog.Backlog, func()) {
			f, err := os.CreateTemp("", "verif-backlog-*")
			if err != nil {
				panic(err)
			}
			bk.fault = func() { f.Close() }
			return backlog.NewFileBacklog(req, f), func() { f.Close(); os.Remove(f.Name()) }
		}
		return bk
	}
	units := rapid.SampledFrom([]int{1, 1, 2, 3, 3, 5}).Draw(t, "units")
	req := units*backlog.BuffSizeAlign - rapid.SampledFrom([]int{0, 0, 1, 4095}).Draw(t, "less")
	if req < 1 {
		req = 1
	}
	return &blKind{name: "mem", cap: uint64(units * backlog.BuffSizeAlign), mk: func() (*backlog.Backlog, func()) { return backlog.NewSize(req), func() {} }}
}

// offsetAround draws a read offset around the interesting positions.
func offsetAround(t *rapid.T, rpos, wpos uint64, label string) uint64 {
	base := rapid.SampledFrom([]uint64{rpos, wpos, (rpos + wpos) / 2, 0}).Draw(t, label)
	d := rapid.IntRange(-3, 3).Draw(t, label+"d")
	if rapid.IntRange(0, 4).Draw(t, label+"any") == 0 {
		if wpos+10 > 0 {
			return rapid.Uint64Range(0, wpos+10).Draw(t, label+"r")
		}
	}
	if d < 0 && uint64(-d) > base {
		return 0
	}
	return base + uint64(d)
}

func c18Sequential(t *rapid.T) {
	bk := drawBacklog(t, true)
	bl, cleanup := bk.mk()
	defer cleanup()
	var wpos uint64
	closed := false
	type rd struct {
		r    *backlog.Reader
		seek uint64
	}
	var readers []*rd
	ops, invalidReads, validReads, wrapsSeen := 0, 0, 0, 0
	rposM := func() uint64 {
		if wpos >= bk.cap {
			return wpos - bk.cap
		}
		return 0
	}
	stop := false
	check := func(cond bool, sig, format string, args ...any) bool {
		if !cond {
			return violation(t, "C18", sig+":"+bk.name, "cap=%d wpos=%d closed=%v: %s", bk.cap, wpos, closed, fmt.Sprintf(format, args...))
		}
		return false
	}
	// readAt checks one ReadAt-like call (never issued when it would block)
	readCheck := func(what string, o uint64, k int, n int, err error, b []byte) bool {
		switch {
		case closed:
			if k == 0 {
				return false
			}
			return check(n == 0 && err != nil, "read-after-close", "%s(%d bytes at %d) after Close = %d, %v; want an error", what, k, o, n, err)
		case k == 0:
			return false // zero-length reads are not specified
		case o > wpos || o+bk.cap < wpos:
			invalidReads++
			return check(n == 0 && sameErr(err, backlog.ErrInvalidOffset), "invalid-offset-not-reported", "%s(%d bytes at %d) = %d, %v; the offset is outside [%d,%d]: want invalid offset", what, k, o, n, err, rposM(), wpos)
		default:
			max := uint64(k)
			if wpos-o < max {
				max = wpos - o
			}
			if check(err == nil && n >= 1 && uint64(n) <= max, "read", "%s(%d bytes at %d) = %d, %v; %d bytes are available there", what, k, o, n, err, wpos-o) {
				return true
			}
			validReads++
			if bad := checkStream(b[:n], o); bad >= 0 {
				return check(false, "read-content", "%s(%d bytes at %d) returned a byte that was not written at offset %d", what, k, o, o+uint64(bad))
			}
		}
		return false
	}
	// guarded runs a read that the model says cannot block (offset beyond the write position: invalid offset at once)
	// under a watchdog, so that a backlog that waits there instead is reported and not waited for
	guarded := func(what string, o uint64, f func() (int, error)) (n int, err error, hung bool) {
		type ret struct {
			n   int
			err error
		}
		ch := make(chan ret, 1)
		go func() { n, err := f(); ch <- ret{n, err} }()
		select {
		case r := <-ch:
			return r.n, r.err, false
		case <-time.After(3 * time.Second):
			check(false, "invalid-offset-blocks", "%s at offset %d has not returned after 3 s although it has nothing to wait for (beyond the write position: invalid offset at once; empty buffer: return at once)", what, o)
			bl.Close() // frees the parked goroutine
			return 0, nil, true
		}
	}
	t.Repeat(map[string]func(*rapid.T){
		"write": func(t *rapid.T) {
			if stop {
				t.Skip()
			}
			k := rapid.SampledFrom([]int{0, 1, 2, 100, int(bk.cap) - 1, int(bk.cap), int(bk.cap) + 1, int(bk.cap)/2 + 1, int(bk.cap) / 3, 4097, 2*int(bk.cap) + 5}).Draw(t, "wk")
			if rapid.IntRange(0, 3).Draw(t, "wany") == 0 {
				k = rapid.IntRange(0, int(bk.cap)+10).Draw(t, "wkr")
			}
			if bk.name == "file" && k > int(bk.cap)/2+1 && rapid.IntRange(0, 3).Draw(t, "filebig") != 0 {
				k = rapid.IntRange(1, 70000).Draw(t, "fk")
			}
			b := make([]byte, k)
			fillStream(b, wpos)
			n, err := bl.Write(b)
			// the caller owns its buffer again as soon as Write has returned (io.Writer): reuse it
			for i := range b {
				b[i] ^= 0xa5
			}
			ops++
			if closed {
				if k > 0 {
					stop = check(n == 0 && err != nil, "write-after-close", "Write(%d) after Close = %d, %v", k, n, err)
				}
				return
			}
			stop = check(n == k && err == nil, "write", "Write(%d) = %d, %v", k, n, err)
			if !stop && (k == 0 || rapid.IntRange(0, 15).Draw(t, "probe") == 7) {
				// the backlog is usable again once Write has returned: the next call must not find it locked
				done := make(chan struct{})
				go func() { bl.DataRange(); close(done) }()
				select {
				case <-done:
				case <-time.After(3 * time.Second):
					stop = check(false, "blocked-after-write", "DataRange() has not returned 3 s after Write(%d) returned %d, %v", k, n, err)
					return
				}
			}
			if (wpos%bk.cap)+uint64(n) > bk.cap {
				wrapsSeen++
			}
			wpos += uint64(n)
		},
		"readat": func(t *rapid.T) {
			if stop {
				t.Skip()
			}
			o := offsetAround(t, rposM(), wpos, "o")
			k := rapid.SampledFrom([]int{1, 2, 64, 4096, 4097, int(bk.cap), int(bk.cap) + 1, 70000}).Draw(t, "rk")
			if !closed && o <= wpos && o >= rposM() && rapid.IntRange(0, 7).Draw(t, "emptyBuf") == 3 {
				// a read into an empty buffer has nothing to wait for: it returns at once, whatever it returns
				if n, _, hung := guarded("ReadAt with an empty buffer", o, func() (int, error) { return bl.ReadAt([]byte{}, o) }); hung || n != 0 {
					if !hung {
						stop = check(false, "read-zero", "ReadAt(empty buffer at %d) returned %d bytes", o, n)
					} else {
						stop = true
					}
				}
				ops++
				return
			}
			if o == wpos && !closed {
				t.Skip("would block")
			}
			b := make([]byte, k)
			var n int
			var err error
			if o > wpos && !closed {
				var hung bool
				if n, err, hung = guarded("ReadAt", o, func() (int, error) { return bl.ReadAt(b, o) }); hung {
					stop = true
					return
				}
			} else {
				n, err = bl.ReadAt(b, o)
			}
			ops++
			stop = readCheck("ReadAt", o, k, n, err, b)
		},
		"datarange": func(t *rapid.T) {
			if stop || closed {
				t.Skip()
			}
			rp, wp, err := bl.DataRange()
			stop = check(err == nil && rp == rposM() && wp == wpos, "datarange", "DataRange() = %d,%d,%v; want %d,%d", rp, wp, err, rposM(), wpos)
		},
		"newreader": func(t *rapid.T) {
			if stop || closed || len(readers) >= 4 {
				t.Skip()
			}
			r, err := bl.NewReader()
			if stop = check(err == nil && r != nil && r.Offset() == wpos, "newreader", "NewReader() at offset %v err %v; want %d", r, err, wpos); !stop {
				readers = append(readers, &rd{r, wpos})
			}
		},
		"reader-read": func(t *rapid.T) {
			if stop || len(readers) == 0 {
				t.Skip()
			}
			x := readers[rapid.IntRange(0, len(readers)-1).Draw(t, "which")]
			if x.seek == wpos && !closed {
				t.Skip("would block")
			}
			k := rapid.SampledFrom([]int{1, 3, 4096, int(bk.cap) + 1}).Draw(t, "k")
			b := make([]byte, k)
			var n int
			var err error
			if x.seek > wpos && !closed {
				var hung bool
				if n, err, hung = guarded("Reader.Read", x.seek, func() (int, error) { return x.r.Read(b) }); hung {
					stop = true
					return
				}
			} else {
				n, err = x.r.Read(b)
			}
			ops++
			if stop = readCheck("Reader.Read", x.seek, k, n, err, b); stop {
				return
			}
			x.seek += uint64(n)
			stop = check(x.r.Offset() == x.seek, "reader-offset", "Reader.Offset() = %d after reading %d, want %d", x.r.Offset(), n, x.seek)
		},
		"reader-valid": func(t *rapid.T) {
			if stop || closed || len(readers) == 0 {
				t.Skip()
			}
			x := readers[rapid.IntRange(0, len(readers)-1).Draw(t, "which")]
			want := x.seek >= rposM() && x.seek <= wpos
			var got bool
			what := "IsValid()"
			if rapid.Bool().Draw(t, "seek") {
				// SeekTo: to the current offset, or around the range edges
				to := x.seek
				if rapid.Bool().Draw(t, "elsewhere") {
					to = offsetAround(t, rposM(), wpos, "to")
				}
				what = fmt.Sprintf("SeekTo(%d) from %d", to, x.seek)
				got = x.r.SeekTo(to)
				x.seek = to
				want = to >= rposM() && to <= wpos
			} else {
				got = x.r.IsValid()
			}
			ops++
			stop = check(got == want, "reader-validity", "%s = %v but the data range is [%d,%d]", what, got, rposM(), wpos)
		},
		"close": func(t *rapid.T) {
			if stop || closed || ops < 6 || rapid.IntRange(0, 3).Draw(t, "rarely") != 0 {
				t.Skip()
			}
			bl.Close()
			closed = true
		},
	})
	nt := wpos >= 2*bk.cap && invalidReads >= 1 && validReads >= 1
	stats.C.Case(nt, stats.HashS(fmt.Sprint(bk.name, bk.cap, wpos, ops, invalidReads, validReads, len(readers), closed)), "sequential:"+bk.name, fmt.Sprintf("cap-units=%d", bk.cap/backlog.BuffSizeAlign))
	if nt {
		stats.C.Sample(fmt.Sprintf("sequential %s backlog cap=%d: %d ops, %d bytes written (%.1fx capacity), %d valid reads, %d invalid-offset reads, %d readers, closed=%v", bk.name, bk.cap, ops, wpos, float64(wpos)/float64(bk.cap), validReads, invalidReads, len(readers), closed))
	}
}

// c18Waiters: readers blocked at the write position are all woken by a write (with the data) or by Close (with an error).
func c18Waiters(t *rapid.T) {
	// one case in six asks for the file backend outright (its close path can fail, see ownerClosedFile)
	wantFile := rapid.IntRange(0, 5).Draw(t, "wantfile") == 0
	bk := drawBacklog(t, wantFile)
	for i := 0; wantFile && bk.name != "file" && i < 40; i++ {
		bk = drawBacklog(t, true)
	}
	bl, cleanup := bk.mk()
	defer cleanup()
	pre := rapid.IntRange(0, int(bk.cap)*2+7).Draw(t, "pre")
	if bk.name == "file" {
		pre = rapid.IntRange(0, 100000).Draw(t, "fpre")
	}
	b := make([]byte, pre)
	fillStream(b, 0)
	bl.Write(b)
	wpos := uint64(pre)
	nr := rapid.IntRange(1, 5).Draw(t, "readers")
	event := rapid.SampledFrom([]string{"write", "write-twice", "close", "close"}).Draw(t, "event")
	if event == "write-twice" {
		nr = rapid.IntRange(2, 8).Draw(t, "readers2") // a lost wake-up needs readers that wake each other's bookkeeping up
	}
	wk := rapid.IntRange(1, 5000).Draw(t, "wk")
	if uint64(wk) > bk.cap {
		wk = int(bk.cap) // a larger write overwrites the offset the readers wait at
	}
	const rounds = 4 // write-twice: in fact a few writes in a row, each of which must wake the readers that wait again
	if event == "write-twice" && uint64(rounds*wk) > bk.cap {
		wk = int(bk.cap / rounds) // all writes together must not overrun a reader that is still at the first offset
	}
	type result struct {
		n   int
		err error
		buf []byte
	}
	results := make([]result, nr)
	var wg sync.WaitGroup
	started := make(chan struct{}, nr)
	for i := 0; i < nr; i++ {
		wg.Add(1)
		useReader := rapid.Bool().Draw(t, "viaReader")
		k := rapid.SampledFrom([]int{1, 16, 5000}).Draw(t, "k")
		var r *backlog.Reader
		if useReader {
			var e error
			if r, e = bl.NewReader(); e != nil || r.Offset() != wpos {
				violation(t, "C18", "newreader:"+bk.name, "NewReader() = %v, %v; want offset %d", r, e, wpos)
				return
			}
		}
		go func(i int) {
			defer wg.Done()
			buf := make([]byte, k)
			started <- struct{}{}
			var n int
			var err error
			if event == "write-twice" {
				// keep reading (and waiting again at the new write position) until both writes have been seen
				got, pos := 0, wpos
				for got < rounds*wk && err == nil {
					if useReader {
						n, err = r.Read(buf)
					} else {
						n, err = bl.ReadAt(buf, pos)
					}
					if n > 0 && checkStream(buf[:n], pos) >= 0 {
						err = fmt.Errorf("wrong bytes at offset %d", pos)
					}
					got += n
					pos += uint64(n)
				}
				results[i] = result{got, err, nil}
				return
			}
			if useReader {
				n, err = r.Read(buf)
			} else {
				n, err = bl.ReadAt(buf, wpos)
			}
			results[i] = result{n, err, buf}
		}(i)
	}
	for i := 0; i < nr; i++ {
		<-started
	}
	time.Sleep(time.Duration(rapid.IntRange(0, 3).Draw(t, "settle")) * time.Millisecond) // some readers parked, some not yet
	if event == "write" {
		d := make([]byte, wk)
		fillStream(d, wpos)
		bl.Write(d)
	} else if event == "write-twice" {
		// the readers wake up, read, and wait again at the new write position: the second write must wake them again
		for j := 0; j < rounds; j++ {
			d := make([]byte, wk)
			fillStream(d, wpos+uint64(j*wk))
			bl.Write(d)
			time.Sleep(time.Duration(rapid.IntRange(0, 3).Draw(t, "between")) * time.Millisecond)
		}
	} else {
		if rapid.IntRange(0, 2).Draw(t, "slowStoreClose") == 0 {
			// closing the backing store takes a while (hook): the backlog must count as closed for the woken readers all the same
			backlog.VerifSlowClose(bl, 20*time.Millisecond)
			event = "close-slow-store"
		}
		if bk.fault != nil && rapid.Bool().Draw(t, "ownerClosedFile") {
			// fault: the file is already closed, so the truncation inside Close fails; the backlog is closed all the same
			bk.fault()
			event = "close-after-file-closed"
		}
		bl.Close()
	}
	done := make(chan struct{})
	go func() { wg.Wait(); close(done) }()
	select {
	case <-done:
	case <-time.After(8 * time.Second):
		dump := goroutineDump()
		bl.Close()
		// give stragglers a way out so that goroutines do not pile up
		d := make([]byte, 1)
		bl.Write(d)
		if strings.Contains(dump, "sync.(*Cond).Wait") && strings.Contains(dump, "backlog.(*Backlog)") {
			violation(t, "C18", "waiter-not-woken:"+event+":"+bk.name, "%d readers waited at the write position %d; after %s some are still parked in the backlog's condition variable 8 s later", nr, wpos, event)
			return
		}
		t.Fatalf("harness: readers did not return but are not parked in the backlog\n%s", dump)
	}
	for i, r := range results {
		if event == "write-twice" {
			if r.err != nil || r.n != rounds*wk {
				violation(t, "C18", "waiter-data:second-write:"+bk.name, "reader %d waiting at %d saw %d of %d bytes of %d writes, err %v", i, wpos, r.n, rounds*wk, rounds, r.err)
				return
			}
			continue
		}
		if event == "write" {
			if r.err != nil || r.n < 1 || r.n > wk || checkStream(r.buf[:r.n], wpos) >= 0 {
				violation(t, "C18", "waiter-data:"+bk.name, "reader %d waiting at %d got %d, %v after a write of %d bytes", i, wpos, r.n, r.err, wk)
				return
			}
		} else if r.err == nil {
			violation(t, "C18", "waiter-close-no-error:"+bk.name, "reader %d waiting at %d returned %d bytes and no error after Close", i, wpos, r.n)
			return
		}
	}
	stats.C.Case(nr >= 2, stats.HashS(fmt.Sprint(bk.name, bk.cap, pre, nr, event, wk)), "waiters:"+event)
	if nr >= 3 {
		stats.C.Sample(fmt.Sprintf("%d readers blocked at write position %d of a %s backlog (cap %d), then %s", nr, wpos, bk.name, bk.cap, event))
	}
}

func TestC18(t *testing.T) {
	t.Run("sequential", func(t *testing.T) { rapid.Check(t, c18Sequential) })
}

func TestC18Waiters(t *testing.T) { rapid.Check(t, c18Waiters) }

func TestC18Regress(t *testing.T) {}
