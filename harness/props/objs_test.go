//go:build verif

package props

import (
	"bytes"
	"fmt"
	"math"
	"sort"

	"github.com/alibaba/RedisShake/pkg/rdb"

	"verif/harness/gen"
)

// toObj converts a logical value into the tool's object types.
func toObj(v gen.Value) interface{} {
	switch v.Kind {
	case "string":
		return rdb.String(v.Str)
	case "list":
		l := rdb.List{}
		for _, e := range v.List {
			l = append(l, e)
		}
		return l
	case "set":
		s := rdb.Set{}
		for _, e := range v.Set {
			s = append(s, e)
		}
		return s
	case "zset":
		z := rdb.ZSet{}
		for _, e := range v.ZSet {
			z = append(z, &rdb.ZSetElement{Member: e.Member, Score: e.Score})
		}
		return z
	case "hash":
		h := rdb.Hash{}
		for _, e := range v.Hash {
			h = append(h, &rdb.HashElement{Field: e.Field, Value: e.Value})
		}
		return h
	}
	panic("toObj " + v.Kind)
}

func sameFloat(a, b float64) bool {
	if math.IsNaN(a) || math.IsNaN(b) {
		return math.IsNaN(a) && math.IsNaN(b)
	}
	return math.Float64bits(a) == math.Float64bits(b)
}

// sameObj compares a decoded object with the logical value. ordered: element order must match.
func sameObj(v gen.Value, o interface{}, ordered bool) string {
	switch v.Kind {
	case "string":
		s, ok := o.(rdb.String)
		if !ok || !bytes.Equal(s, v.Str) {
			return fmt.Sprintf("string: got %T %q want %q", o, o, v.Str)
		}
	case "list":
		l, ok := o.(rdb.List)
		if !ok || len(l) != len(v.List) {
			return fmt.Sprintf("list: got %T len %d want len %d", o, len(l), len(v.List))
		}
		for i := range l {
			if !bytes.Equal(l[i], v.List[i]) {
				return fmt.Sprintf("list[%d]: got %q want %q", i, l[i], v.List[i])
			}
		}
	case "set":
		s, ok := o.(rdb.Set)
		if !ok || len(s) != len(v.Set) {
			return fmt.Sprintf("set: got %T len %d want len %d", o, len(s), len(v.Set))
		}
		a := make([]string, len(s))
		b := make([]string, len(s))
		for i := range s {
			a[i], b[i] = string(s[i]), string(v.Set[i])
		}
		if !ordered {
			sort.Strings(a)
			sort.Strings(b)
		}
		for i := range a {
			if a[i] != b[i] {
				return fmt.Sprintf("set member %d: got %q want %q", i, a[i], b[i])
			}
		}
	case "zset":
		z, ok := o.(rdb.ZSet)
		if !ok || len(z) != len(v.ZSet) {
			return fmt.Sprintf("zset: got %T len %d want len %d", o, len(z), len(v.ZSet))
		}
		if ordered {
			for i := range z {
				if !bytes.Equal(z[i].Member, v.ZSet[i].Member) || !sameFloat(z[i].Score, v.ZSet[i].Score) {
					return fmt.Sprintf("zset[%d]: got %q=%v want %q=%v", i, z[i].Member, z[i].Score, v.ZSet[i].Member, v.ZSet[i].Score)
				}
			}
		} else {
			want := map[string]float64{}
			for _, e := range v.ZSet {
				want[string(e.Member)] = e.Score
			}
			for _, e := range z {
				w, ok := want[string(e.Member)]
				if !ok || !(w == e.Score || sameFloat(w, e.Score)) {
					return fmt.Sprintf("zset member %q: got score %v want %v (present=%v)", e.Member, e.Score, w, ok)
				}
				delete(want, string(e.Member))
			}
			if len(want) != 0 {
				return fmt.Sprintf("zset: %d members missing", len(want))
			}
		}
	case "hash":
		h, ok := o.(rdb.Hash)
		if !ok || len(h) != len(v.Hash) {
			return fmt.Sprintf("hash: got %T len %d want len %d", o, len(h), len(v.Hash))
		}
		if ordered {
			for i := range h {
				if !bytes.Equal(h[i].Field, v.Hash[i].Field) || !bytes.Equal(h[i].Value, v.Hash[i].Value) {
					return fmt.Sprintf("hash[%d]: got %q=%q want %q=%q", i, h[i].Field, h[i].Value, v.Hash[i].Field, v.Hash[i].Value)
				}
			}
		} else {
			want := map[string]string{}
			for _, e := range v.Hash {
				want[string(e.Field)] = string(e.Value)
			}
			for _, e := range h {
				w, ok := want[string(e.Field)]
				if !ok || w != string(e.Value) {
					return fmt.Sprintf("hash field %q: got %q want %q (present=%v)", e.Field, e.Value, w, ok)
				}
				delete(want, string(e.Field))
			}
			if len(want) != 0 {
				return fmt.Sprintf("hash: %d fields missing", len(want))
			}
		}
	}
	return ""
}
