//go:build verif

package props

import (
	"bytes"
	"encoding/binary"
	"fmt"
	"strconv"
	"strings"
	"testing"
	"time"

	"github.com/alibaba/RedisShake/pkg/rdb"
	utils "github.com/alibaba/RedisShake/redis-shake/common"
	conf "github.com/alibaba/RedisShake/redis-shake/configure"
	redigo "github.com/garyburd/redigo/redis"
	"pgregory.net/rapid"

	"verif/harness/gen"
	"verif/harness/logcap"
	"verif/harness/mredis"
	"verif/harness/stats"
)

type targetKind struct {
	version string
	rdbver  int
	reject  []byte
	busy28  bool
}

var targetKinds = []targetKind{
	{"2.8.19", 6, []byte{gen.TQuicklist, gen.TZSet2, gen.TStream}, true},
	{"3.2.11", 7, []byte{gen.TZSet2, gen.TStream}, false},
	{"4.0.11", 8, []byte{gen.TStream}, false},
	{"5.0.7", 9, nil, false},
	{"5.0.7", 9, nil, false},
	{"6.0.5", 9, nil, false},
	{"7.0.11", 10, nil, false},
}

func newTarget(tk targetKind) *mredis.Server {
	s := mredis.New()
	s.Version, s.RDBVersion, s.BusyMsg28 = tk.version, tk.rdbver, tk.busy28
	for _, t := range tk.reject {
		s.RejectTypes[t] = true
	}
	s.Password = tgtSentinel
	s.Listen()
	return s
}

// givenVersionStrings: ways a user may write the target's version in the configuration.
func givenVersionStrings(full string) []string {
	p := strings.Split(full, ".")
	return []string{p[0], p[0] + "." + p[1], full}
}

func targetReplaceRule(v string) bool {
	return strings.HasPrefix(v, "3.") || strings.HasPrefix(v, "4.") || strings.HasPrefix(v, "5.")
}

func openTarget(t fataler, s *mredis.Server) redigo.Conn {
	var c redigo.Conn
	var err error
	res := logcap.Run(func() { c, err = utils.OpenRedisConn([]string{s.Addr()}, "auth", tgtSentinel, false, false) })
	if !res.Completed || err != nil {
		t.Fatalf("harness: cannot open target connection: %v %v", res, err)
	}
	return c
}

type c02Case struct {
	v        *gen.Value // nil for stream
	enc      gen.Enc
	labels   map[string]bool
	entry    *rdb.BinEntry
	tk       targetKind
	given    bool
	existing string // "", "same", "other"
	exTTL    bool
	expire   string // none past future
	exValue  *gen.Value
	expireAt uint64 // the source key's absolute expiry in ms (what the file says)
	// configuration
	keyExists      string
	targetVersion  string
	threshold      uint64
	shift          time.Duration
	replaceHashTag bool
}

func (c *c02Case) apply() {
	o := &conf.Options
	o.KeyExists, o.TargetVersion, o.BigKeyThreshold, o.ShiftTime, o.ReplaceHashTag = c.keyExists, c.targetVersion, c.threshold, c.shift, c.replaceHashTag
	o.TargetReplace = targetReplaceRule(c.targetVersion)
	o.FilterLua = false
}

func (c *c02Case) String() string {
	return fmt.Sprintf("%s key=%q payload=%dB expire=%s idle=%d freq=%d | target %s (version string %q given=%v) key_exists=%s replace=%v threshold=%d shift=%v hashtag=%v | existing=%s",
		c.enc.Label, c.entry.Key, len(c.entry.Value), c.expire, c.entry.IdleTime, c.entry.Freq, c.tk.version, conf.Options.TargetVersion, c.given,
		conf.Options.KeyExists, conf.Options.TargetReplace, conf.Options.BigKeyThreshold, conf.Options.ShiftTime, conf.Options.ReplaceHashTag, c.existing)
}

// route derives the route the tool took from the command log.
func c02Route(log []mredis.Cmd) string {
	var names []string
	for _, c := range log {
		switch c.Name {
		case "auth", "select":
		default:
			names = append(names, c.Name)
		}
	}
	has := func(n string) bool {
		for _, x := range names {
			if x == n {
				return true
			}
		}
		return false
	}
	nRestore := 0
	for _, x := range names {
		if x == "restore" {
			nRestore++
		}
	}
	elem := has("rpush") || has("hset") || has("sadd") || has("zadd") || has("set")
	switch {
	case has("script"):
		return "lua"
	case nRestore > 0 && elem:
		return "restore+fallback-elements"
	case nRestore >= 2:
		return "restore-retry"
	case nRestore == 1 && has("del"):
		return "restore+del"
	case nRestore == 1:
		return "restore"
	case has("exists") && elem:
		return "quicklist-elements"
	case elem:
		return "big-elements"
	case has("exists"):
		return "quicklist-noelements"
	}
	return "none(" + strings.Join(names, ",") + ")"
}

func drawC02(t *rapid.T) *c02Case {
	c := &c02Case{labels: map[string]bool{}}
	c.tk = rapid.SampledFrom(targetKinds).Draw(t, "target")
	if rapid.IntRange(0, 11).Draw(t, "stream?") == 0 {
		c.enc = gen.StreamEnc(t, c.labels)
	} else {
		v := gen.DrawValue(t, "", rapid.SampledFrom([]int{12, 12, 300}).Draw(t, "max"))
		c.v = &v
		c.enc = gen.EncodeValue(t, v, c.labels)
	}
	key := gen.Elem().Draw(t, "key")
	if rapid.IntRange(0, 5).Draw(t, "tagkey") == 0 {
		key = []byte(rapid.SampledFrom([]string{"{tag}key", "a{b}c{d}e", "{}x", "}{", "{{a}}"}).Draw(t, "hashtagkey"))
	}
	e := &rdb.BinEntry{DB: uint32(rapid.IntRange(0, 15).Draw(t, "db")), Key: key, Type: c.enc.Type, Value: c.enc.Payload(), NeedReadLen: 1}
	c.shift = rapid.SampledFrom([]time.Duration{0, 0, time.Hour, -time.Hour, 400 * 24 * time.Hour, -400 * 24 * time.Hour}).Draw(t, "shift")
	now := time.Now().Add(c.shift).UnixNano() / 1e6
	c.expire = rapid.SampledFrom([]string{"none", "none", "past", "future", "future"}).Draw(t, "expire")
	switch c.expire {
	case "past":
		e.ExpireAt = uint64(now - int64(rapid.IntRange(0, 100000).Draw(t, "ago")))
	case "future":
		e.ExpireAt = uint64(now + int64(rapid.IntRange(5000, 1<<40).Draw(t, "ahead")))
	}
	if rapid.IntRange(0, 3).Draw(t, "hint") == 0 {
		if rapid.Bool().Draw(t, "idle") {
			e.IdleTime = uint32(rapid.IntRange(1, 1<<30).Draw(t, "idlev"))
		} else {
			e.Freq = uint8(rapid.IntRange(1, 255).Draw(t, "freqv"))
		}
	}
	if rapid.IntRange(0, 3).Draw(t, "viaParser") == 0 {
		// let the real parser produce the entry from a one-key file (second- or millisecond-resolution expiry opcode)
		b := []byte("REDIS0009")
		b = append(b, gen.OpSelectDB)
		b = gen.AppendLen(b, uint64(e.DB), 0)
		if e.ExpireAt != 0 {
			if rapid.Bool().Draw(t, "expireSeconds") {
				e.ExpireAt = e.ExpireAt / 1000 * 1000
				if e.ExpireAt/1000 > 0xffffffff {
					e.ExpireAt = 0xffffffff * 1000
				}
				b = append(b, gen.OpExpire)
				b = binary.LittleEndian.AppendUint32(b, uint32(e.ExpireAt/1000))
			} else {
				b = append(b, gen.OpExpireMs)
				b = binary.LittleEndian.AppendUint64(b, e.ExpireAt)
			}
		}
		if e.IdleTime != 0 {
			b = append(b, gen.OpIdle)
			b = gen.AppendLen(b, uint64(e.IdleTime), 0)
		}
		if e.Freq != 0 {
			b = append(b, gen.OpFreq, e.Freq)
		}
		b = append(b, c.enc.Type)
		b = gen.AppendRawString(b, e.Key)
		b = append(b, c.enc.Bytes...)
		b = append(b, gen.OpEOF)
		entries, err, res := loadAll(bytes.NewReader(appendCRC(b)))
		if err != nil || !res.Completed || len(entries) != 1 {
			t.Fatalf("harness: parser failed on a one-key file: %v %v", err, res)
		}
		c.expireAt = e.ExpireAt
		e = entries[0]
		c.labels["via-parser"] = true
	} else {
		c.expireAt = e.ExpireAt
	}
	c.entry = e
	// configuration (post-conditions of the sanitiser)
	c.given = rapid.IntRange(0, 2).Draw(t, "versionGiven") == 0
	if c.given {
		c.targetVersion = rapid.SampledFrom(givenVersionStrings(c.tk.version)).Draw(t, "versionString")
		c.threshold = 1 // the sanitiser forces this when target.version is configured
	} else {
		c.targetVersion = c.tk.version
		n := uint64(len(e.Value))
		c.threshold = rapid.SampledFrom([]uint64{1, n - 1, n, n + 1, 500 * 1024 * 1024, 500 * 1024 * 1024}).Draw(t, "threshold")
		if c.threshold < 1 {
			c.threshold = 1
		}
	}
	c.keyExists = rapid.SampledFrom([]string{"none", "rewrite", "ignore"}).Draw(t, "keyExists")
	c.replaceHashTag = rapid.IntRange(0, 5).Draw(t, "replaceHashTag") == 0
	c.existing = rapid.SampledFrom([]string{"", "", "same", "other"}).Draw(t, "existing")
	c.exTTL = rapid.Bool().Draw(t, "exTTL")
	if c.existing != "" {
		var ev gen.Value
		for ev.Kind == "" || (ev.Kind != "string" && ev.Len() == 0) {
			if c.existing == "same" && c.v != nil {
				ev = gen.DrawValue(t, c.v.Kind, 5)
			} else {
				ev = gen.DrawValue(t, "", 5)
			}
			if ev.Kind != "string" && ev.Len() == 0 {
				ev = gen.Value{Kind: "string", Str: []byte("placeholder")}
			}
		}
		c.exValue = &ev
	}
	return c
}

func resetC02Conf() {
	o := &conf.Options
	o.ShiftTime, o.ReplaceHashTag, o.KeyExists, o.TargetVersion, o.TargetReplace, o.BigKeyThreshold = 0, false, "none", "5.0.7", true, 500*1024*1024
}

func expectedKey(key []byte, replaceHashTag bool) string {
	k := string(key)
	if replaceHashTag {
		k = strings.Replace(k, "{", "", 1)
		k = strings.Replace(k, "}", "", 1)
	}
	return k
}

func c02Sig(c *c02Case, route, what string) string {
	return fmt.Sprintf("%s:%s:%s", what, route, conf.Options.KeyExists)
}

func c02Run(t *rapid.T) { c02Check(t, drawC02(t)) }

func c02Check(t fataler, c *c02Case) {
	defer resetC02Conf()
	c.apply()
	if c.expireAt == 0 {
		c.expireAt = c.entry.ExpireAt
	}
	major, _ := strconv.Atoi(strings.Split(c.tk.version, ".")[0])
	if c.v == nil && major < 5 {
		stats.C.Exclude("stream entry to a target older than 5.0 (cannot be represented there)")
		return
	}
	if c.v != nil && c.v.Kind != "string" && c.v.Len() == 0 {
		stats.C.Exclude("empty collection value (cannot exist in Redis)")
		return
	}
	srv := newTarget(c.tk)
	defer srv.Close()
	wantKey := expectedKey(c.entry.Key, conf.Options.ReplaceHashTag)
	if c.v != nil {
		srv.Register(c.entry.Value, *c.v)
	} else {
		srv.Register(c.entry.Value, gen.Value{})
	}
	var pre *mredis.Entry
	if c.exValue != nil {
		pre = mredis.FromValue(*c.exValue)
		if c.exTTL {
			pre.HasTTL, pre.TTLGiven, pre.TTLAt = true, 77777, time.Now()
		}
		srv.Put(int(c.entry.DB), wantKey, pre)
	}
	preCopy := func() *mredis.Entry {
		if pre == nil {
			return nil
		}
		x := *pre
		x.List = append([][]byte(nil), pre.List...)
		cp := func(m map[string]string) map[string]string {
			o := map[string]string{}
			for k, v := range m {
				o[k] = v
			}
			return o
		}
		if pre.Hash != nil {
			x.Hash = cp(pre.Hash)
		}
		if pre.Set != nil {
			x.Set = map[string]struct{}{}
			for k := range pre.Set {
				x.Set[k] = struct{}{}
			}
		}
		if pre.ZSet != nil {
			x.ZSet = map[string]float64{}
			for k, v := range pre.ZSet {
				x.ZSet[k] = v
			}
		}
		return &x
	}()
	conn := openTarget(t, srv)
	defer conn.Close()
	if c.entry.DB != 0 {
		logcap.Run(func() { utils.SelectDB(conn, c.entry.DB) })
	}
	desc := c.String()
	shift := conf.Options.ShiftTime
	before := time.Now().Add(shift).UnixNano() / 1e6
	var rerr error
	res := logcap.Run(func() { rerr = utils.RestoreRdbEntry(conn, c.entry) })
	after := time.Now().Add(shift).UnixNano()/1e6 + 1
	log := srv.LogCopy()
	route := c02Route(log)
	if len(srv.UnknownPayloads) > 0 {
		violation(t, "C02", c02Sig(c, route, "payload-altered"), "%s: the target received a payload that is not the entry's payload: %v", desc, srv.UnknownPayloads)
		return
	}
	if !res.Completed {
		sig := c02Sig(c, route, "abort")
		if res.Panic != nil && strings.Contains(fmt.Sprint(res.Panic), "index out of range") && strings.Contains(res.Stack, "CompareVersion") {
			sig = "abort:CompareVersion-index"
		}
		violation(t, "C02", sig, "%s: restore aborted: %v\ncommands: %v", desc, res, log)
		return
	}
	got := srv.Get(int(c.entry.DB), wantKey)
	cls := []string{"route:" + route, "policy:" + conf.Options.KeyExists, "cell:" + route + "/" + conf.Options.KeyExists + "/existing=" + c.existing, "enc:" + c.enc.Label, "target:" + c.tk.version}
	untouched := func() string {
		if got == nil {
			return "the existing key was deleted"
		}
		if d := got.Same(preCopy); d != "" {
			return "the existing key changed: " + d
		}
		if got.HasTTL != preCopy.HasTTL || got.TTLGiven != preCopy.TTLGiven {
			return fmt.Sprintf("the existing key's ttl changed: %v/%d -> %v/%d", preCopy.HasTTL, preCopy.TTLGiven, got.HasTTL, got.TTLGiven)
		}
		return ""
	}
	switch {
	case pre != nil && conf.Options.KeyExists == "none":
		if rerr == nil {
			violation(t, "C02", c02Sig(c, route, "none-no-error"), "%s: key exists and key_exists=none, but no error was reported\ncommands: %v", desc, log)
			return
		}
		if d := untouched(); d != "" {
			violation(t, "C02", c02Sig(c, route, "none-touched"), "%s: key_exists=none but %s\ncommands: %v", desc, d, log)
			return
		}
	case pre != nil && conf.Options.KeyExists == "ignore":
		if rerr != nil {
			violation(t, "C02", c02Sig(c, route, "ignore-error"), "%s: key_exists=ignore but an error was returned: %v", desc, rerr)
			return
		}
		if d := untouched(); d != "" {
			violation(t, "C02", c02Sig(c, route, "ignore-touched"), "%s: key_exists=ignore but %s\ncommands: %v", desc, d, log)
			return
		}
	default:
		// success expected: key absent before, or rewrite
		if rerr != nil {
			violation(t, "C02", c02Sig(c, route, "error"), "%s: restore returned an error: %v\ncommands: %v", desc, rerr, log)
			return
		}
		if got == nil {
			violation(t, "C02", c02Sig(c, route, "key-missing"), "%s: after a successful restore the key %q is not in db %d\ncommands: %v", desc, wantKey, c.entry.DB, log)
			return
		}
		var want *mredis.Entry
		if c.v != nil {
			want = mredis.FromValue(*c.v)
		} else {
			want = &mredis.Entry{Kind: "opaque", Payload: c.entry.Value}
		}
		if d := got.Same(want); d != "" {
			violation(t, "C02", c02Sig(c, route, "value"), "%s: target value differs from the source value: %s\ncommands: %v", desc, d, log)
			return
		}
		switch c.expire {
		case "none":
			if got.HasTTL {
				violation(t, "C02", c02Sig(c, route, "ttl-unexpected"), "%s: source key has no expiry but the target got ttl %d", desc, got.TTLGiven)
				return
			}
		case "past":
			if !got.HasTTL || got.TTLGiven != 1 {
				violation(t, "C02", c02Sig(c, route, "ttl-expired"), "%s: expired source key: target ttl %v/%d, want 1 ms\ncommands: %v", desc, got.HasTTL, got.TTLGiven, log)
				return
			}
		case "future":
			lo, hi := int64(c.expireAt)-after, int64(c.expireAt)-before
			if !got.HasTTL || got.TTLGiven < lo || got.TTLGiven > hi {
				violation(t, "C02", c02Sig(c, route, "ttl"), "%s: target ttl %v/%d ms, want within [%d,%d]\ncommands: %v", desc, got.HasTTL, got.TTLGiven, lo, hi, log)
				return
			}
		}
	}
	nt := pre != nil || !strings.HasPrefix(route, "restore") || route != "restore" || c.expire != "none"
	stats.C.Case(nt, stats.Hash(c.entry.Value, c.entry.Key, []byte(desc)), cls...)
	if nt && len(desc) < 400 && pre != nil {
		stats.C.Sample(desc + " => route " + route)
	}
}

func TestC02(t *testing.T) { rapid.Check(t, c02Run) }

// c02Lua: a script entry is loaded with SCRIPT LOAD exactly when filter.lua is off.
func c02Lua(t *rapid.T) {
	defer resetC02Conf()
	body := []byte(rapid.SampledFrom([]string{"return 1", "return redis.call('get',KEYS[1])", "local a = 1\nreturn {a, ARGV[1]}", ""}).Draw(t, "body") + rapid.StringMatching(`( --[a-z0-9]{0,8})?`).Draw(t, "tail"))
	conf.Options.FilterLua = rapid.Bool().Draw(t, "filterLua")
	defer func() { conf.Options.FilterLua = false }()
	srv := newTarget(rapid.SampledFrom(targetKinds).Draw(t, "target"))
	defer srv.Close()
	conn := openTarget(t, srv)
	defer conn.Close()
	e := &rdb.BinEntry{DB: 0, Key: []byte("lua"), Type: rdb.RdbFlagAUX, Value: body, NeedReadLen: 1}
	var rerr error
	res := logcap.Run(func() { rerr = utils.RestoreRdbEntry(conn, e) })
	if !res.Completed || rerr != nil {
		violation(t, "C02", "lua:error", "script entry (filter.lua=%v): %v err=%v", conf.Options.FilterLua, res, rerr)
		return
	}
	srv.Lock()
	n := len(srv.Scripts)
	var got []byte
	for _, b := range srv.Scripts {
		got = b
	}
	srv.Unlock()
	if conf.Options.FilterLua && n != 0 || !conf.Options.FilterLua && (n != 1 || !bytes.Equal(got, body)) {
		violation(t, "C02", "lua:load", "script %q with filter.lua=%v: target holds %d scripts (%q)", body, conf.Options.FilterLua, n, got)
		return
	}
	stats.C.Case(!conf.Options.FilterLua, stats.Hash(body), "route:lua")
}

func TestC02Lua(t *testing.T) { rapid.Check(t, c02Lua) }

// c02Chunked: a hash beyond the 16 MiB chunk limit goes through the real parser and is restored
// chunk by chunk on one connection; the target must end with exactly the source hash and ttl.
func c02Chunked(t *rapid.T) {
	defer resetC02Conf()
	bh := drawBigHashFile(t)
	o := &conf.Options
	o.KeyExists = rapid.SampledFrom([]string{"none", "rewrite", "ignore"}).Draw(t, "keyExists")
	o.BigKeyThreshold = rapid.SampledFrom([]uint64{1, 500 * 1024 * 1024}).Draw(t, "threshold")
	existing := rapid.Bool().Draw(t, "existing") && o.KeyExists == "rewrite"
	tk := targetKinds[3]
	o.TargetVersion, o.TargetReplace = tk.version, true
	srv := newTarget(tk)
	defer srv.Close()
	entries, err, res := loadAll(bytes.NewReader(bh.file.Bytes))
	if err != nil || !res.Completed {
		t.Fatalf("harness: parser failed on the generated file: %v %v", err, res)
	}
	want := &mredis.Entry{Kind: "hash", Hash: map[string]string{}}
	for i, f := range bh.fields {
		want.Hash[string(f)] = string(bh.pairBytes[bh.valSpans[i][0]:bh.valSpans[i][1]])
	}
	rec := bh.file.Records[bh.keyIndex]
	if existing {
		srv.Put(int(rec.DB), string(rec.Key), &mredis.Entry{Kind: "hash", Hash: map[string]string{"stale-field": "x", "field-000000": "old"}})
	}
	// debug records would format multi-megabyte payloads ("%v" of a byte slice): log at info level here
	defer quietLog()()
	hv := gen.Value{Kind: "hash"}
	for i, f := range bh.fields {
		hv.Hash = append(hv.Hash, gen.HE{Field: f, Value: bh.pairBytes[bh.valSpans[i][0]:bh.valSpans[i][1]]})
	}
	for _, e := range entries {
		if bytes.Equal(e.Key, rec.Key) && e.RealMemberCount == 0 {
			srv.Register(e.Value, hv) // unchunked delivery: a single RESTORE of the whole payload is legitimate
		}
	}
	conn := openTarget(t, srv)
	defer conn.Close()
	nChunks := 0
	lastdb := uint32(0)
	var rerr error
	res = logcap.Run(func() {
		for _, e := range entries {
			if !bytes.Equal(e.Key, rec.Key) {
				continue
			}
			if e.DB != lastdb {
				utils.SelectDB(conn, e.DB)
				lastdb = e.DB
			}
			nChunks++
			// the shifted clock makes future expiries meaningful
			if rerr = utils.RestoreRdbEntry(conn, e); rerr != nil {
				return
			}
		}
	})
	desc := fmt.Sprintf("chunked hash of %d pairs / %d bytes in %d records, key_exists=%s threshold=%d existing=%v labels=%v", bh.n, len(bh.pairBytes), nChunks, o.KeyExists, o.BigKeyThreshold, existing, labelList(bh.file.Labels))
	if !res.Completed || rerr != nil {
		violation(t, "C02", "chunked:abort", "%s: %v err=%v", desc, res, rerr)
		return
	}
	got := srv.Get(int(rec.DB), string(rec.Key))
	if got == nil {
		violation(t, "C02", "chunked:key-missing", "%s: key absent after restore", desc)
		return
	}
	if d := got.Same(want); d != "" {
		violation(t, "C02", "chunked:value", "%s: %s", desc, d)
		return
	}
	if (rec.ExpireAt != 0) != got.HasTTL {
		violation(t, "C02", "chunked:ttl", "%s: source expireat %d, target has ttl: %v (%d)", desc, rec.ExpireAt, got.HasTTL, got.TTLGiven)
		return
	}
	stats.C.Case(true, stats.HashS(desc), "route:chunked", fmt.Sprintf("chunked-records=%d", nChunks))
	stats.C.Sample(desc)
}

func TestC02Chunked(t *testing.T) { rapid.Check(t, c02Chunked) }

// TestC02ChunkedThree: the same with hashes of three chunks only.
func TestC02ChunkedThree(t *testing.T) {
	forcedBigMode = "three"
	defer func() { forcedBigMode = "" }()
	rapid.Check(t, c02Chunked)
}

// hand-built regression inputs of the fixed findings (no generator involved in the choice of case)
func TestC02Regress(t *testing.T) {
	str := func(s string) *gen.Value { return &gen.Value{Kind: "string", Str: []byte(s)} }
	mk := func(v *gen.Value, typ byte, valBytes []byte, label string, tk targetKind) *c02Case {
		c := &c02Case{v: v, enc: gen.Enc{Type: typ, Bytes: valBytes, Label: label}, labels: map[string]bool{}, tk: tk, expire: "none",
			keyExists: "none", targetVersion: tk.version, threshold: 500 * 1024 * 1024}
		c.entry = &rdb.BinEntry{Key: []byte("k"), Type: typ, Value: gen.Payload(typ, valBytes, gen.DumpVersion), NeedReadLen: 1}
		return c
	}
	rawStr := func(s string) []byte { return gen.AppendRawString(nil, []byte(s)) }
	t5, t28, t32 := targetKinds[3], targetKinds[0], targetKinds[1]
	// D1: target.version "5" with an entry that reaches the version comparison (stream: never split)
	c := mk(nil, gen.TStream, append(gen.AppendLen(nil, 0, 0), 0, 0, 0, 0), "stream", t5)
	c.given, c.targetVersion, c.threshold = true, "5", 1
	c02Check(t, c)
	// D2: rewrite on a target without RESTORE REPLACE
	c = mk(str("new"), gen.TString, rawStr("new"), "string", t28)
	c.keyExists, c.existing, c.exValue = "rewrite", "same", str("old")
	c02Check(t, c)
	// D3: big-key route with key_exists none / ignore and an existing key
	for _, pol := range []string{"none", "ignore"} {
		c = mk(str("new"), gen.TString, rawStr("new"), "string", t5)
		c.keyExists, c.existing, c.exValue, c.threshold = pol, "same", str("old"), 1
		c02Check(t, c)
	}
	// D4: quicklist with key_exists=ignore and an existing key
	zl := []byte{11 + 3, 0, 0, 0, 10, 0, 0, 0, 1, 0, 0, 1, 'a', 0xff}
	lv := &gen.Value{Kind: "list", List: [][]byte{[]byte("a")}}
	c = mk(lv, gen.TQuicklist, append(gen.AppendLen(nil, 1, 0), gen.AppendRawString(nil, zl)...), "list/quicklist", t5)
	c.keyExists, c.existing, c.exValue = "ignore", "other", str("old")
	c02Check(t, c)
	// D5: 'Bad data format' fallback must keep the expiry
	zv := &gen.Value{Kind: "zset", ZSet: []gen.ZE{{Member: []byte("m"), Score: 1.5}}}
	z2 := append(gen.AppendLen(nil, 1, 0), rawStr("m")...)
	z2 = append(z2, 0, 0, 0, 0, 0, 0, 0xf8, 0x3f)
	c = mk(zv, gen.TZSet2, z2, "zset/zset2", t32)
	c.expire = "future"
	c.entry.ExpireAt = uint64(time.Now().UnixNano()/1e6 + 3600_000)
	c02Check(t, c)
	// fallback under rewrite with an existing key of another type
	c = mk(zv, gen.TZSet2, z2, "zset/zset2", t32)
	c.keyExists, c.existing, c.exValue = "rewrite", "other", str("old")
	c02Check(t, c)
	// fixed: a ziplist with more than 65535 entries (its 16-bit count saturates) on the element-by-element route
	rapid.Check(t, func(rt *rapid.T) {
		big := &gen.Value{Kind: "list"}
		for i := 0; i < 65540; i++ {
			big.List = append(big.List, []byte(strconv.Itoa(i)))
		}
		c := mk(big, gen.TListZiplist, gen.AppendRawString(nil, gen.Ziplist(rt, big.List, nil)), "list/ziplist", t5)
		c.threshold = 1
		c02Check(t, c)
	})
	// an intset whose 32-bit member count does not fit 16 bits, on the element-by-element route, fresh and over an existing key
	rapid.Check(t, func(rt *rapid.T) {
		n := rapid.SampledFrom([]int{65536, 65537, 69001}).Draw(rt, "members")
		big := &gen.Value{Kind: "set"}
		var ints []int64
		for i := 0; i < n; i++ {
			ints = append(ints, int64(i)-1000)
			big.Set = append(big.Set, []byte(strconv.Itoa(i-1000)))
		}
		c := mk(big, gen.TSetIntset, gen.AppendRawString(nil, gen.Intset(rt, ints, nil)), "set/intset", t5)
		c.threshold = 1
		if rapid.Bool().Draw(rt, "rewrite") {
			c.keyExists, c.existing, c.exValue = "rewrite", "same", str("old")
		}
		c02Check(t, c)
	})
}
