//go:build verif

package props

import (
	"bytes"
	"encoding/binary"
	"encoding/json"
	"fmt"
	"strconv"
	"strings"
	"sync"
	"testing"
	"time"

	"github.com/alibaba/RedisShake/redis-shake/checkpoint"
	conf "github.com/alibaba/RedisShake/redis-shake/configure"
	"github.com/alibaba/RedisShake/redis-shake/dbSync"
	"github.com/alibaba/RedisShake/redis-shake/dbSync/slot"
	"golang.org/x/sync/semaphore"
	"pgregory.net/rapid"

	"verif/harness/fsrc"
	"verif/harness/gen"
	"verif/harness/logcap"
	"verif/harness/mredis"
	"verif/harness/ref"
	"verif/harness/stats"
)

type e2eScript struct {
	start  int64
	cmds   [][][]byte
	gaps   []time.Duration // pause after each command
	dropAt int             // drop the link after this command index (-1 never)
	mode   string          // fresh | resume-continue | resume-fullresync
	sameID bool            // resume-fullresync: the source kept its run id but lost the backlog (new offset under the old id)
	pre    []int           // keep-alive newlines in front of each command
	// shard slot range of the sync node (-1,-1: not a cluster shard): the checkpoint key must hash inside it (C15)
	slotL, slotR int
	// resume-continue only: the continued stream does not begin with a SELECT (the source has no reason to send one)
	noLeadSelect bool
	inline       []bool // PING sent in inline form ("PING\r\n")
	rdbSplit     int    // the RDB of the full phase arrives in two pieces, split at this offset (0: one piece)
}

func (s e2eScript) String() string {
	var parts []string
	for i, c := range s.cmds {
		var a []string
		for _, x := range c {
			a = append(a, string(x))
		}
		p := strings.Join(a, " ") + fmt.Sprintf("+%v", s.gaps[i])
		if i < len(s.inline) && s.inline[i] {
			p = "inline:" + p
		}
		if i < len(s.pre) && s.pre[i] > 0 {
			p = fmt.Sprintf("%dxLF ", s.pre[i]) + p
		}
		if i == s.dropAt {
			p += "+DROP"
		}
		parts = append(parts, p)
	}
	extra := ""
	if s.mode == "resume-continue" && s.noLeadSelect {
		extra += " continued-stream-without-its-first-SELECT"
	}
	if s.rdbSplit > 0 && s.mode != "resume-continue" {
		extra += fmt.Sprintf(" rdb-split@%d", s.rdbSplit)
	}
	if s.mode == "resume-fullresync" && s.sameID {
		extra += " same-run-id"
	}
	return fmt.Sprintf("mode=%s%s start=%d [%s]", s.mode, extra, s.start, strings.Join(parts, " ; "))
}

func drawE2E(t *rapid.T) e2eScript {
	s := e2eScript{dropAt: -1, slotL: -1, slotR: -1}
	s.mode = rapid.SampledFrom([]string{"fresh", "fresh", "resume-continue", "resume-fullresync"}).Draw(t, "mode")
	s.sameID = rapid.IntRange(0, 2).Draw(t, "sameRunID") == 1
	s.start = rapid.SampledFrom([]int64{0, 999, 1 << 33}).Draw(t, "start")
	if s.mode != "fresh" && s.start == 0 {
		s.start = 999
	}
	n := rapid.IntRange(5, 12).Draw(t, "n")
	s.cmds = append(s.cmds, bb("select", strconv.Itoa(rapid.SampledFrom([]int{0, 1, 3}).Draw(t, "db0"))))
	s.gaps = append(s.gaps, 0)
	var dur time.Duration
	for i := 0; i < n || dur < 2600*time.Millisecond; i++ {
		switch rapid.IntRange(0, 5).Draw(t, "kind") {
		case 0:
			s.cmds = append(s.cmds, bb("select", strconv.Itoa(rapid.SampledFrom([]int{0, 1, 3}).Draw(t, "db"))))
		case 1:
			s.cmds = append(s.cmds, bb("ping"))
		default:
			s.cmds = append(s.cmds, bb("rpush", "list:"+rapid.StringMatching(`[a-c]`).Draw(t, "k"), rapid.StringMatching(`[a-z0-9]{0,8}`).Draw(t, "v")))
		}
		g := time.Duration(rapid.SampledFrom([]int{0, 0, 150, 600, 1200}).Draw(t, "gapms")) * time.Millisecond
		s.gaps = append(s.gaps, g)
		dur += g
		if len(s.cmds) > 18 {
			break
		}
	}
	if rapid.Bool().Draw(t, "drop") {
		s.dropAt = rapid.IntRange(1, len(s.cmds)-2).Draw(t, "dropAt")
	}
	for i := range s.cmds {
		s.pre = append(s.pre, rapid.SampledFrom([]int{0, 0, 0, 1, 2}).Draw(t, "keepalive"))
		s.inline = append(s.inline, string(s.cmds[i][0]) == "ping" && rapid.IntRange(0, 2).Draw(t, "inline") == 0)
	}
	s.noLeadSelect = rapid.Bool().Draw(t, "noLeadSelect")
	s.rdbSplit = rapid.SampledFrom([]int{0, 0, 1, 9, 15, 20}).Draw(t, "rdbSplit")
	return s
}

func runE2E(s e2eScript, id int, loader bool) (sig, msg string) {
	firstDB, _ := strconv.Atoi(string(s.cmds[0][1]))
	if s.mode == "resume-continue" && s.noLeadSelect && len(s.cmds) > 3 {
		// the stream simply continues in the database the checkpoint was taken in
		s.cmds, s.gaps = s.cmds[1:], s.gaps[1:]
		if len(s.pre) > 0 {
			s.pre = s.pre[1:]
		}
		if len(s.inline) > 0 {
			s.inline = s.inline[1:]
		}
		if s.dropAt >= 0 {
			s.dropAt--
			if s.dropAt < 1 {
				s.dropAt = 1
			}
		}
	}
	// command stream with end positions
	var stream bytes.Buffer
	ends := make([]int, len(s.cmds))
	for i, c := range s.cmds {
		if i < len(s.pre) {
			stream.Write(bytes.Repeat([]byte("\n"), s.pre[i])) // keep-alive newlines count as stream bytes
		}
		if i < len(s.inline) && s.inline[i] {
			stream.WriteString("PING\r\n")
		} else {
			encodeCmd(&stream, c)
		}
		ends[i] = stream.Len()
	}
	data := stream.Bytes()
	// a small valid RDB for the full phase
	rdb := []byte("REDIS0009")
	rdb = append(rdb, gen.OpSelectDB, 0, gen.TString)
	rdb = gen.AppendRawString(rdb, []byte("fullsync:key"))
	val := gen.AppendRawString(nil, []byte("v"))
	rdb = append(rdb, val...)
	rdb = append(rdb, gen.OpEOF)
	rdb = binary.LittleEndian.AppendUint64(rdb, crcOf(rdb))
	var steps []fsrc.Step
	if s.mode == "resume-continue" {
		steps = append(steps, fsrc.Step{Send: []byte("+CONTINUE\r\n")})
	} else {
		steps = append(steps, fsrc.Step{Send: []byte(fmt.Sprintf("+FULLRESYNC %s %d\r\n$%d\r\n", c08RunID, s.start, len(rdb)))})
		if s.rdbSplit > 0 && s.rdbSplit < len(rdb) {
			// short reads during the RDB transfer: what is still missing of the RDB must not be taken for stream bytes
			steps = append(steps, fsrc.Step{Send: rdb[:s.rdbSplit], Sleep: 60 * time.Millisecond}, fsrc.Step{Send: rdb[s.rdbSplit:]})
		} else {
			steps = append(steps, fsrc.Step{Send: rdb})
		}
	}
	prev := 0
	sentBeforeDrop := len(data)
	for i := range s.cmds {
		steps = append(steps, fsrc.Step{Send: data[prev:ends[i]], Stream: true, Sleep: s.gaps[i]})
		prev = ends[i]
		if i == s.dropAt {
			sentBeforeDrop = prev
			steps = append(steps, fsrc.Step{Close: true})
			break
		}
	}
	if s.dropAt < 0 {
		steps = append(steps, fsrc.Step{Sleep: 5 * time.Second})
	}
	var firstPSync string
	var psync string
	var pmu sync.Mutex
	plans := []fsrc.Plan{{Steps: steps, OnPSync: func(runid string, offset int64) []fsrc.Step {
		pmu.Lock()
		firstPSync = fmt.Sprintf("%s %d", runid, offset)
		pmu.Unlock()
		return nil
	}}}
	if s.dropAt >= 0 {
		plans = append(plans, fsrc.Plan{OnPSync: func(runid string, offset int64) []fsrc.Step {
			pmu.Lock()
			psync = fmt.Sprintf("%s %d", runid, offset)
			pmu.Unlock()
			st := []fsrc.Step{{Send: []byte("+CONTINUE\r\n")}}
			from := int(offset - 1 - s.start)
			if from >= 0 && from <= len(data) {
				p := from
				for i := s.dropAt + 1; i < len(s.cmds); i++ {
					if ends[i] > p {
						st = append(st, fsrc.Step{Send: data[p:ends[i]], Stream: true, Sleep: s.gaps[i]})
						p = ends[i]
					}
				}
			}
			return append(st, fsrc.Step{Sleep: 5 * time.Second})
		}})
	}
	src := fsrc.New(srcSentinel, plans...)
	tgt := mredis.New()
	tgt.Password = tgtSentinel
	tgt.Listen()
	putOldCheckpoint := func(db int, runid string, offset int64) {
		tgt.Put(db, "redis-shake-checkpoint", &mredis.Entry{Kind: "hash", Hash: map[string]string{
			src.Addr() + "-runid": runid, src.Addr() + "-version": "1", src.Addr() + "-offset": strconv.FormatInt(offset, 10)}})
	}
	tgt.Register(gen.Payload(gen.TString, val, gen.DumpVersion), gen.Value{Kind: "string", Str: []byte("v")})
	// a checkpoint left behind by an earlier run (resume modes)
	oldRun := c08RunID
	oldOffset := s.start
	if s.mode == "resume-fullresync" {
		oldRun, oldOffset = "01d01d01d01d01d01d01d01d01d01d01d01d01d0", s.start/2
		if s.sameID {
			oldRun = c08RunID
			if oldOffset == s.start {
				oldOffset = s.start + 977
			}
		}
	}
	if s.mode != "fresh" {
		putOldCheckpoint(firstDB, oldRun, oldOffset)
	}
	defer func() {
		src.Silence()
		tgt.CloseConns()
		// the source listener is left open on purpose: the syncer's offset poller (10 s ticker) dereferences a
		// nil connection when a reconnect to a vanished source fails, which would kill the whole test process
		time.AfterFunc(4*time.Second, func() { tgt.Close() })
	}()
	node := &slot.SyncNode{Id: id, Source: src.Addr(), SourcePassword: srcSentinel, Target: []string{tgt.Addr()}, TargetPassword: tgtSentinel, SlotLeftBoundary: s.slotL, SlotRightBoundary: s.slotR}
	ds := dbSync.NewDbSyncer(node, 9320, semaphore.NewWeighted(4))
	// the per-syncer status document as it looks after the run (restarts included) is scanned for the password sentinels (C19)
	defer func() {
		if b, err := json.Marshal(ds.GetExtraInfo()); err == nil {
			logcap.Cap.Scan("DbSyncer.GetExtraInfo after the run", b)
		}
		logcap.Cap.Scan("DbSyncer.GetExtraInfo after the run (%v)", []byte(fmt.Sprintf("%v", ds.GetExtraInfo())))
	}()
	gidCh := make(chan int64, 1)
	logcap.Start(func() { gidCh <- logcap.Gid(); ds.Sync() })
	gid := <-gidCh
	// expected data commands
	var want []string
	for _, c := range s.cmds {
		if n := string(c[0]); n == "rpush" {
			want = append(want, strings.Join([]string{string(c[1]), string(c[2])}, "="))
		}
	}
	deadline := time.Now().Add(14 * time.Second)
	var got []string
	for time.Now().Before(deadline) {
		got = got[:0]
		for _, cm := range tgt.LogCopy() {
			if cm.Name == "rpush" {
				got = append(got, string(cm.Argv[1])+"="+string(cm.Argv[2]))
			}
		}
		if len(got) >= len(want) {
			break
		}
		if ab := logcap.Cap.TakeAbortsOf(func(a logcap.Abort) bool { return a.Gid == gid || a.Parent == gid }); len(ab) > 0 {
			return "e2e:abort", "the run aborted: " + ab[0].Msg
		}
		time.Sleep(30 * time.Millisecond)
	}
	time.Sleep(700 * time.Millisecond) // one more flush tick: late duplicates would show
	got = got[:0]
	log := tgt.LogCopy()
	for _, cm := range log {
		if cm.Name == "rpush" {
			got = append(got, string(cm.Argv[1])+"="+string(cm.Argv[2]))
		}
	}
	if strings.Join(got, ",") != strings.Join(want, ",") {
		return "e2e:data", fmt.Sprintf("target applied %v, source sent %v", got, want)
	}
	if s.slotL >= 0 {
		// the syncer of a cluster shard: whatever key it stores its checkpoint under hashes into the shard's own slot range
		n := 0
		for _, cm := range log {
			if cm.Name == "hset" && len(cm.Argv) == 4 && strings.HasSuffix(string(cm.Argv[2]), "-offset") {
				n++
				key := string(cm.Argv[1])
				if sl := ref.Slot(cm.Argv[1]); sl < s.slotL || sl > s.slotR || !strings.HasPrefix(key, "redis-shake-checkpoint") {
					return "e2e:checkpoint-key-range", fmt.Sprintf("the syncer of the shard with slots [%d,%d] stores its checkpoint under %q, which hashes to slot %d", s.slotL, s.slotR, key, sl)
				}
			}
		}
		if n == 0 && len(want) > 0 {
			return "e2e:no-checkpoint", "data was applied but no checkpoint was stored"
		}
		return "", "" // everything else about these runs is C08's / C14's to judge (with the plain key name)
	}
	if s.dropAt >= 0 {
		var ps string
		for dl := time.Now().Add(5 * time.Second); time.Now().Before(dl); time.Sleep(30 * time.Millisecond) {
			pmu.Lock()
			ps = psync
			pmu.Unlock()
			if ps != "" {
				break
			}
		}
		if wantPS := fmt.Sprintf("%s %d", c08RunID, s.start+int64(sentBeforeDrop)+1); ps != wantPS {
			return "e2e:reconnect-offset", fmt.Sprintf("after the drop the tool sent PSYNC %q, want %q", ps, wantPS)
		}
	}
	pmu.Lock()
	fps := firstPSync
	pmu.Unlock()
	wantFirst := " -1"
	if s.mode != "fresh" {
		wantFirst = fmt.Sprintf("%s %d", oldRun, oldOffset+1)
	}
	if fps != wantFirst {
		return "e2e:first-psync", fmt.Sprintf("the run started with PSYNC %q, want %q (checkpoint left in the target: run id %q offset %d db %d)", fps, wantFirst, oldRun, oldOffset, firstDB)
	}
	// the newest checkpoint must carry the run id of the source that produced these offsets
	if ck := readCheckpointFor(tgt, "redis-shake-checkpoint", src.Addr()); ck.found && len(want) > 0 && (ck.runid != c08RunID || !ck.hasVer) {
		return "e2e:checkpoint-runid", fmt.Sprintf("newest checkpoint (offset %d, db %d) carries run id %q (version present: %v); the offsets were produced under run id %q", ck.offset, ck.db, ck.runid, ck.hasVer, c08RunID)
	}
	// with resume on, data and its checkpoint travel in one transaction: no data command is applied outside MULTI/EXEC
	for _, cm := range log {
		if cm.Name == "rpush" && !cm.InTx {
			return "e2e:data-outside-transaction", fmt.Sprintf("resume is on, yet %s was applied outside a MULTI/EXEC block (so without its checkpoint)", cm)
		}
	}
	// every database this run stored an offset in also holds the run id and the version (a restart reading that database
	// as the newest one must not be told "unknown run id")
	for _, cm := range log {
		if cm.Name == "hset" && len(cm.Argv) == 4 && strings.HasSuffix(string(cm.Argv[2]), "-offset") {
			if e := tgt.Get(cm.DB, "redis-shake-checkpoint"); e != nil && e.Kind == "hash" {
				if rid, ok := e.Hash[src.Addr()+"-runid"]; !ok || rid != c08RunID {
					return "e2e:checkpoint-runid", fmt.Sprintf("this run stored a checkpoint offset in db %d, but the checkpoint there carries run id %q (present: %v); the offsets were produced under run id %q", cm.DB, rid, ok, c08RunID)
				}
				if _, ok := e.Hash[src.Addr()+"-version"]; !ok {
					return "e2e:checkpoint-runid", fmt.Sprintf("this run stored a checkpoint offset in db %d without a version field", cm.DB)
				}
			}
		}
	}
	// every stored checkpoint offset == start + end position of the last source command of its group
	valid := map[int64]int{s.start: -1} // a resumed run announces its start db with the start offset itself
	for i, e := range ends {
		valid[s.start+int64(e)] = i
	}
	applied := 0
	rpushIdx := []int{}
	for i, c := range s.cmds {
		if string(c[0]) == "rpush" {
			rpushIdx = append(rpushIdx, i)
		}
	}
	nck := 0
	for _, cm := range log {
		switch {
		case cm.Name == "rpush":
			applied++
		case cm.Name == "hset" && len(cm.Argv) == 4 && strings.HasSuffix(string(cm.Argv[2]), "-offset"):
			nck++
			off, _ := strconv.ParseInt(string(cm.Argv[3]), 10, 64)
			idx, ok := valid[off]
			if !ok {
				return "e2e:checkpoint-offset", fmt.Sprintf("checkpoint offset %d is neither start(%d) nor start + the end position of a source command (ends %v)", off, s.start, ends)
			}
			// the group holding this checkpoint ends with source command idx: exactly the rpush commands up to idx are applied
			n := 0
			for _, ri := range rpushIdx {
				if ri <= idx {
					n++
				}
			}
			if n != applied {
				return "e2e:checkpoint-offset", fmt.Sprintf("checkpoint offset %d (after source command %d) was stored when %d data commands had been applied; the source history up to it has %d", off, idx, applied, n)
			}
		}
	}
	if nck == 0 && len(want) > 0 {
		return "e2e:no-checkpoint", "data was applied but no checkpoint was stored"
	}
	// exact position: every source command (SELECT, PING, RPUSH) is forwarded, in order, on the sender's connection; a
	// checkpoint stored in a batch carries the end position of the last source command forwarded up to and including
	// that batch - not of a command that is still waiting (e.g. the SELECT whose arrival closed the batch)
	sender := -1
	for _, cm := range log {
		if cm.Name == "multi" {
			sender = cm.Conn
			break
		}
	}
	if sender >= 0 {
		fwd := 0
		synthetic := s.mode != "fresh" && firstDB != 0 // a resumed run first announces the recorded db itself
		for _, cm := range log {
			if cm.Conn != sender {
				continue
			}
			switch {
			case cm.Name == "select" || cm.Name == "ping" || cm.Name == "rpush":
				if synthetic && cm.Name == "select" && fwd == 0 {
					synthetic = false
					continue
				}
				if fwd < len(s.cmds) && !strings.EqualFold(string(s.cmds[fwd][0]), cm.Name) {
					return "e2e:data", fmt.Sprintf("forwarded command %d is %q, the source's command %d is %q", fwd, cm.Name, fwd, s.cmds[fwd][0])
				}
				fwd++
			case cm.Name == "hset" && len(cm.Argv) == 4 && strings.HasSuffix(string(cm.Argv[2]), "-offset"):
				off, _ := strconv.ParseInt(string(cm.Argv[3]), 10, 64)
				wantOff := s.start
				if fwd > 0 && fwd <= len(ends) {
					wantOff = s.start + int64(ends[fwd-1])
				}
				if off != wantOff {
					return "e2e:checkpoint-offset", fmt.Sprintf("a checkpoint with offset %d was stored after %d source commands had been forwarded; the stream position after those is %d (start %d, ends %v)", off, fwd, wantOff, s.start, ends)
				}
			}
		}
	}
	// once the full phase is over the tool acknowledges its position every second, also when the run started with
	// +CONTINUE and there was no full phase at all
	if s.start > 0 || len(data) > 0 {
		acked := false
		for dl := time.Now().Add(3500 * time.Millisecond); !acked && time.Now().Before(dl); time.Sleep(50 * time.Millisecond) {
			for _, c := range src.ConnList() {
				for _, r := range c.Commands() {
					if len(r.Argv) == 3 && strings.EqualFold(r.Argv[0], "replconf") && strings.EqualFold(r.Argv[1], "ack") && r.Argv[2] != "0" {
						acked = true
					}
				}
			}
		}
		if !acked {
			return "e2e:ack-missing", fmt.Sprintf("the incremental phase has been running for seconds (all %d data commands applied), yet no REPLCONF ACK with a non-zero offset reached the source", len(want))
		}
	}
	if loader && len(want) > 0 {
		// writer/reader agreement: the loader must read back the run id the sender ran under and the last stored offset
		var lastOff int64 = -1
		for _, cm := range log {
			if cm.Name == "hset" && len(cm.Argv) == 4 && strings.HasSuffix(string(cm.Argv[2]), "-offset") {
				lastOff, _ = strconv.ParseInt(string(cm.Argv[3]), 10, 64)
			}
		}
		var runid string
		var offset int64
		var db int
		var err error
		res := logcap.Run(func() {
			runid, offset, db, err = checkpoint.LoadCheckpoint(id, src.Addr(), []string{tgt.Addr()}, "auth", tgtSentinel, "redis-shake-checkpoint", false, false)
		})
		if !res.Completed || err != nil {
			return "e2e:loader-refused", fmt.Sprintf("LoadCheckpoint failed on the state the sender left behind: %v %v", err, res)
		}
		// the sender may still be flushing (e.g. the group of a trailing SELECT after a reconnect): any offset it stored
		// from the last one seen before the load up to now is a correct answer
		allowed := map[int64]bool{lastOff: true}
		for _, cm := range tgt.LogCopy()[len(log):] {
			if cm.Name == "hset" && len(cm.Argv) == 4 && strings.HasSuffix(string(cm.Argv[2]), "-offset") {
				o, _ := strconv.ParseInt(string(cm.Argv[3]), 10, 64)
				allowed[o] = true
			}
		}
		if runid != c08RunID || !allowed[offset] {
			return "e2e:loader-disagrees", fmt.Sprintf("the sender ran under run id %q and last stored offset %d; the loader reads back (run id %q, offset %d, db %d)", c08RunID, lastOff, runid, offset, db)
		}
	}
	return "", ""
}

func crcOf(b []byte) uint64 {
	return binary.LittleEndian.Uint64(appendCRC(append([]byte{}, b...))[len(b):])
}

func c08E2EBatch(t *rapid.T) { e2eBatch(t, "C08") }

// c14E2EBatch: the same end-to-end runs, judged only on writer/reader agreement of the checkpoint (C14).
func c14E2EBatch(t *rapid.T) { e2eBatch(t, "C14") }

// c04E2EBatch: the same end-to-end runs judged on what C04 states: data applied exactly once and every stored checkpoint
// offset equal to the source position of the data applied with it, also when the run itself started from a checkpoint.
func c04E2EBatch(t *rapid.T) { e2eBatch(t, "C04") }

// c15E2EBatch: the same runs for the syncer of a cluster shard, judged on the checkpoint key it chooses.
func c15E2EBatch(t *rapid.T) { e2eBatch(t, "C15") }

var e2eSigsOf = map[string][]string{
	"C15": {"e2e:checkpoint-key-range", "e2e:no-checkpoint"},
	"C14": {"e2e:checkpoint-runid", "e2e:loader-"},
	"C04": {"e2e:checkpoint-offset", "e2e:data", "e2e:no-checkpoint", "e2e:checkpoint-runid"},
}

func e2eBatch(t *rapid.T, prop string) {
	o := &conf.Options
	o.ResumeFromBreakPoint, o.Parallel, o.KeyExists, o.TargetDB = true, 1, "none", -1
	o.SenderCount, o.SenderSize = uint(rapid.SampledFrom([]int{1, 3, 1024}).Draw(t, "senderCount")), 104857600
	defer func() { o.ResumeFromBreakPoint = false; resetIncrConf() }()
	k := rapid.IntRange(4, 8).Draw(t, "k")
	scripts := make([]e2eScript, k)
	for i := range scripts {
		scripts[i] = drawE2E(t)
		if prop == "C08" {
			// every batch holds every start mode (a batch has at least four runs)
			scripts[i].mode = []string{"fresh", "resume-continue", "resume-fullresync", "resume-fullresync"}[i%4]
			scripts[i].sameID = i%4 == 3
			if scripts[i].mode != "fresh" && scripts[i].start == 0 {
				scripts[i].start = 999
			}
		}
		if prop == "C14" {
			// only resumed runs, half of them continued streams that do not begin with a SELECT
			if scripts[i].mode == "fresh" {
				scripts[i].mode = "resume-fullresync"
			}
			if i%2 == 1 {
				scripts[i].mode, scripts[i].noLeadSelect = "resume-continue", true
			}
		}
		if prop == "C04" && scripts[i].mode == "fresh" && i%2 == 0 {
			scripts[i].mode = "resume-continue"
		}
		if prop == "C15" {
			scripts[i].mode = "fresh"
			r := rapid.SampledFrom([][2]int{{0, 5460}, {0, 0}, {0, 16383}, {5461, 10922}, {10923, 16383}, {1, 16383}, {12866, 12866}, {16383, 16383}}).Draw(t, "shard")
			scripts[i].slotL, scripts[i].slotR = r[0], r[1]
		}
		if scripts[i].mode != "fresh" && scripts[i].start == 0 {
			scripts[i].start = 999
		}
	}
	type res struct{ sig, msg string }
	outs := make([]res, k)
	var wg sync.WaitGroup
	for i := range scripts {
		wg.Add(1)
		go func(i int) {
			defer wg.Done()
			id := <-incrSlots
			outs[i].sig, outs[i].msg = runE2E(scripts[i], id, prop == "C14")
			time.AfterFunc(5*time.Second, func() { incrSlots <- id })
		}(i)
	}
	wg.Wait()
	dropLeftoverAborts()
	for i, r := range outs {
		if own, ok := e2eSigsOf[prop]; ok && r.sig != "" {
			mine := false
			for _, p := range own {
				mine = mine || strings.HasPrefix(r.sig, p)
			}
			if !mine {
				r.sig = "" // everything else is C08's to judge
			}
		}
		if r.sig != "" {
			if violation(t, prop, r.sig, "sender.count=%d; %s: %s", o.SenderCount, scripts[i], r.msg) {
				continue
			}
		}
		stats.C.Case(true, stats.HashS(scripts[i].String()), "end-to-end", fmt.Sprintf("e2e-drop=%v", scripts[i].dropAt >= 0), "e2e-mode="+scripts[i].mode)
		if len(scripts[i].cmds) <= 9 {
			stats.C.Sample("end-to-end Sync(): " + scripts[i].String())
		}
	}
}

func TestC08EndToEnd(t *testing.T) { rapid.Check(t, c08E2EBatch) }
func TestC14EndToEnd(t *testing.T) { rapid.Check(t, c14E2EBatch) }
func TestC04EndToEnd(t *testing.T) { rapid.Check(t, c04E2EBatch) }
func TestC15EndToEnd(t *testing.T) { rapid.Check(t, c15E2EBatch) }
