#!/bin/bash
# usage: keep_round.sh <seed-out dir> <round tag, e.g. r2> <property>...   -- confirm, evaluate (quick) and keep each seed
out="$1"; tag="$2"; shift 2
for p in "$@"; do
  for i in 1 2 3; do
    m=$out/$p/m$i; [ -d $m ] || continue
    c=$(/verif/tools/confirm_seed.sh $m | tail -1)
    if [ "$c" != CONFIRMED ]; then c=$(/verif/tools/confirm_seed.sh $m | tail -1); fi
    if [ "$c" != CONFIRMED ]; then echo "== $p $tag m$i NOT CONFIRMED"; continue; fi
    r=$(TAIL=400 /verif/tools/try_patch.sh $m/patch.diff $p quick 2>&1)
    how=$(echo "$r" | grep -o "property C[0-9]* violated \[sig=[^]]*\]" | head -1)
    tst=$(echo "$r" | grep -o "^VIOLATION property=.*" | head -1 | sed 's/.*[0-9]-\(Test[A-Za-z0-9]*\|regress\).*/\1/')
    if echo "$r" | grep -q "^VIOLATION"; then
      /verif/tools/keep_seed.py $m $p-${tag}m$i yes "quick tier: $tst: $how" >/dev/null; echo "== $p $tag m$i caught: $tst $how"
    else
      /verif/tools/keep_seed.py $m $p-${tag}m$i no "not caught by the quick tier" >/dev/null; echo "== $p $tag m$i MISSED (quick)"
    fi
  done
done
