//go:build verif

package props

import (
	"bytes"
	"encoding/binary"
	"fmt"
	"sync"
	"testing"

	"github.com/alibaba/RedisShake/pkg/rdb"
	"pgregory.net/rapid"

	"verif/harness/gen"
	"verif/harness/logcap"
	"verif/harness/ref"
	"verif/harness/stats"
)

// c11Concurrent: several parsers at work at the same time (the tool runs one per source node): every payload each of them
// emits still carries the CRC-64 of exactly its own bytes. One of the files holds large strings, the others many small keys,
// so that the checksum computations overlap in time.
func c11Concurrent(t *rapid.T) {
	n := rapid.IntRange(2, 4).Draw(t, "loaders")
	files := make([][]byte, n)
	for i := range files {
		if i == 0 {
			// a handful of large raw strings
			b := []byte("REDIS0009")
			b = append(b, gen.OpSelectDB, 0)
			for k := rapid.IntRange(2, 5).Draw(t, "bigkeys"); k > 0; k-- {
				size := rapid.SampledFrom([]int{64 << 10, 512 << 10, 1<<20 - 3, 1 << 20, 2 << 20}).Draw(t, "bigsize")
				// values of every container type, not only strings (whose type byte is 0)
				typ := rapid.SampledFrom([]byte{gen.TString, gen.TList, gen.TSet, gen.THash}).Draw(t, "bigtype")
				b = append(b, typ)
				b = gen.AppendRawString(b, []byte(fmt.Sprintf("big:%d", k)))
				switch typ {
				case gen.TString:
					b = gen.AppendRawString(b, patBytes(uint32(k), size))
				case gen.THash:
					b = gen.AppendLen(b, 1, 0)
					b = gen.AppendRawString(b, []byte("field"))
					b = gen.AppendRawString(b, patBytes(uint32(k), size))
				default:
					b = gen.AppendLen(b, 1, 0)
					b = gen.AppendRawString(b, patBytes(uint32(k), size))
				}
			}
			b = append(b, gen.OpEOF)
			files[i] = appendCRC(b)
			continue
		}
		f := gen.DrawFile(t, gen.FileOpts{MaxDBs: 2, MaxKeys: 40, MaxElems: 6, ClassicOnly: true, NoMeta: true, NoLua: true, NoEmpty: true, SingleHint: true})
		files[i] = f.Bytes
	}
	type out struct {
		entries []*rdb.BinEntry
		err     error
		res     logcap.Result
	}
	outs := make([]out, n)
	var wg sync.WaitGroup
	start := make(chan struct{})
	for i := range files {
		wg.Add(1)
		go func(i int) {
			defer wg.Done()
			<-start
			outs[i].entries, outs[i].err, outs[i].res = loadAll(bytes.NewReader(files[i]))
		}(i)
	}
	close(start)
	wg.Wait()
	total := 0
	for i, o := range outs {
		if o.err != nil || !o.res.Completed {
			violation(t, "C11", "concurrent-load-failed", "parser %d of %d running concurrently failed: err=%v %v", i, n, o.err, o.res)
			return
		}
		for _, e := range o.entries {
			if e.Type == rdb.RdbFlagAUX {
				continue
			}
			v := e.Value
			if len(v) < 10 {
				violation(t, "C11", "payload-crc:concurrent", "parser %d: payload of key %q has %d bytes", i, e.Key, len(v))
				return
			}
			if crc := binary.LittleEndian.Uint64(v[len(v)-8:]); crc != ref.CRC64(0, v[:len(v)-8]) {
				violation(t, "C11", "payload-crc:concurrent", "%d parsers running concurrently: parser %d emitted a payload for key %q (%d bytes) whose trailer %#x is not the CRC-64 of the bytes it covers (%#x)", n, i, e.Key, len(v), crc, ref.CRC64(0, v[:len(v)-8]))
				return
			}
			total++
		}
	}
	stats.C.Case(n >= 3, stats.Hash(files[0][:64], files[1]), "concurrent-parsers", fmt.Sprintf("parsers=%d", n))
	stats.C.Count("payloads_checked_under_concurrency", int64(total))
}

func TestC11Concurrent(t *testing.T) { rapid.Check(t, c11Concurrent) }
