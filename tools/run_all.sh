#!/bin/bash
# usage: run_all.sh <seed> [parallel]  -- runs every quick check; prints one line per property
seed=${1:-0}; par=${2:-4}
ids=$(python3 -c "import json;print(' '.join(json.loads(l)['id'] for l in open('/verif/properties.jsonl')))")
printf "%s\n" $ids | xargs -P $par -I{} sh -c 'cd /verif && out=$(VERIF_SEED='$seed' ./check {} 2>&1); rc=$?; echo "{} rc=$rc $(echo "$out" | grep -E "^\[check\] C|VIOLATION|KNOWN-FINDING" | tr "\n" " " | cut -c1-260)"'
