//go:build verif

package props

import (
	"fmt"
	"sync"
	"sync/atomic"
	"testing"
	"time"

	"github.com/alibaba/RedisShake/pkg/libs/io/backlog"
	"pgregory.net/rapid"

	"verif/harness/stats"
)

// c18Writers: several goroutines write at the same time. Whatever order the writes end up in, the bytes of one Write stay
// together: the log is a sequence of whole writes, so that "the bytes written at offset o" is well defined for every o.
// Every write is filled with one byte value of its own; writes larger than half the ring (and larger than the ring) are
// split inside the backlog, which is where another writer could slip in.
func c18Writers(t *rapid.T) {
	units := rapid.SampledFrom([]int{1, 1, 2}).Draw(t, "units")
	capacity := units * backlog.BuffSizeAlign
	bl := backlog.NewSize(capacity)
	defer bl.Close()
	if rapid.Bool().Draw(t, "slowStore") {
		backlog.VerifSlowWrite(bl, time.Duration(rapid.SampledFrom([]int{50, 300}).Draw(t, "us"))*time.Microsecond)
	}
	nw := rapid.IntRange(2, 4).Draw(t, "writers")
	type wr struct {
		val  byte
		size int
	}
	plan := make([][]wr, nw)
	sizes := map[byte]int{}
	next := byte(1)
	total := 0
	for i := range plan {
		for j := rapid.IntRange(2, 5).Draw(t, "nwrites"); j > 0; j-- {
			sz := rapid.SampledFrom([]int{1, 100, capacity/2 + 1, capacity - 1, capacity, capacity + 5, 3000}).Draw(t, "size")
			plan[i] = append(plan[i], wr{next, sz})
			sizes[next] = sz
			total += sz
			next++
		}
	}
	var wg sync.WaitGroup
	start := make(chan struct{})
	errs := make(chan string, 64)
	for i := range plan {
		wg.Add(1)
		go func(i int) {
			defer wg.Done()
			<-start
			for _, w := range plan[i] {
				b := make([]byte, w.size)
				for k := range b {
					b[k] = w.val
				}
				if n, err := bl.Write(b); n != w.size || err != nil {
					errs <- fmt.Sprintf("Write(%d) = %d, %v", w.size, n, err)
					return
				}
			}
		}(i)
	}
	close(start)
	done := make(chan struct{})
	go func() { wg.Wait(); close(done) }()
	select {
	case <-done:
	case <-time.After(20 * time.Second):
		violation(t, "C18", "writers-stuck", "%d concurrent writers (ring %d): not all writes returned within 20 s", nw, capacity)
		return
	}
	select {
	case e := <-errs:
		violation(t, "C18", "write:concurrent", "%d concurrent writers (ring %d): %s", nw, capacity, e)
		return
	default:
	}
	rp, wp, err := bl.DataRange()
	if err != nil || wp != uint64(total) {
		violation(t, "C18", "datarange:concurrent", "after %d bytes in concurrent writes DataRange() = %d,%d,%v", total, rp, wp, err)
		return
	}
	// read the whole retained range back
	got := make([]byte, 0, wp-rp)
	for o := rp; o < wp; {
		b := make([]byte, 8192)
		n, err := bl.ReadAt(b, o)
		if err != nil || n == 0 {
			violation(t, "C18", "read:concurrent", "ReadAt(%d) in [%d,%d] = %d, %v", o, rp, wp, n, err)
			return
		}
		got = append(got, b[:n]...)
		o += uint64(n)
	}
	// runs of equal bytes: every run but the first (cut by the range's lower edge) is one whole write, and no write appears twice
	seen := map[byte]bool{}
	for i := 0; i < len(got); {
		j := i
		for j < len(got) && got[j] == got[i] {
			j++
		}
		v := got[i]
		if seen[v] {
			violation(t, "C18", "write-interleaved", "%d concurrent writers (ring %d): the bytes of the write filled with %#x appear in two separate places of the log (second run at offset %d): another writer's bytes landed inside it", nw, capacity, v, rp+uint64(i))
			return
		}
		seen[v] = true
		if i > 0 && j-i != sizes[v] {
			violation(t, "C18", "write-interleaved", "%d concurrent writers (ring %d): the write filled with %#x has %d bytes, the log holds a run of %d at offset %d", nw, capacity, v, sizes[v], j-i, rp+uint64(i))
			return
		}
		if i == 0 && j-i > sizes[v] {
			violation(t, "C18", "write-interleaved", "first run longer than its write")
			return
		}
		i = j
	}
	stats.C.Case(nw >= 3, stats.HashS(fmt.Sprint(capacity, plan)), "concurrent-writers")
}

func TestC18Writers(t *testing.T) { rapid.Check(t, c18Writers) }

// c18ReadDuringWrite: a reader keeps reading the retained range while one Write larger than the ring is in progress
// (the backlog stores it in several pieces). Whatever moment the reader catches, a read that succeeds returns the bytes
// that were written at that offset - never bytes of an earlier lap that a half-done write has not replaced yet.
func c18ReadDuringWrite(t *rapid.T) {
	bk := drawBacklog(t, true)
	if bk.name != "file" && rapid.Bool().Draw(t, "preferFile") {
		for i := 0; i < 30 && bk.name != "file"; i++ {
			bk = drawBacklog(t, true)
		}
	}
	bl, cleanup := bk.mk()
	defer cleanup()
	defer bl.Close()
	capacity := int(bk.cap)
	// first lap: fill the ring once and a bit, so that every slot holds bytes of an earlier lap
	pre := capacity + rapid.IntRange(1, 5000).Draw(t, "pre")
	b := make([]byte, pre)
	fillStream(b, 0)
	bl.Write(b)
	wpos := uint64(pre)
	if rapid.Bool().Draw(t, "slowStore") {
		backlog.VerifSlowWrite(bl, time.Duration(rapid.SampledFrom([]int{200, 2000}).Draw(t, "us"))*time.Microsecond)
	}
	over := capacity + rapid.SampledFrom([]int{1, 777, 4096, capacity/2 + 3}).Draw(t, "over")
	stop := make(chan struct{})
	var bad atomic.Value
	var reads atomic.Int64
	var wg sync.WaitGroup
	for r := 0; r < 2; r++ {
		wg.Add(1)
		go func(r int) {
			defer wg.Done()
			buf := make([]byte, 8192)
			for i := 0; ; i++ {
				select {
				case <-stop:
					return
				default:
				}
				var o, rp, wp uint64
				if r == 0 {
					// offsets spread over the retained range, the newest part included
					var err error
					if rp, wp, err = bl.DataRange(); err != nil || wp <= rp {
						continue
					}
					o = rp + (uint64(i*7919) % (wp - rp))
				} else {
					// offsets inside the part of the big write that cannot survive (it is longer than the ring): they enter the
					// range only together with their bytes, or not at all
					lead := uint64(over - capacity)
					o = wpos + lead - 1 - uint64(i%int(lead+64))%lead
				}
				n, err := bl.ReadAt(buf[:64+i%512], o)
				if err != nil || n == 0 {
					continue // overrun in the meantime: a legitimate answer
				}
				reads.Add(1)
				if k := checkStream(buf[:n], o); k >= 0 {
					bad.Store(fmt.Sprintf("ReadAt(%d) returned %d bytes while a Write of %d bytes (ring %d) was in progress; the byte at offset %d is not the one written there (data range then [%d,%d])", o, n, over, capacity, o+uint64(k), rp, wp))
					return
				}
			}
		}(r)
	}
	d := make([]byte, over)
	fillStream(d, wpos)
	bl.Write(d)
	time.Sleep(2 * time.Millisecond)
	close(stop)
	wg.Wait()
	if m := bad.Load(); m != nil {
		violation(t, "C18", "read-content:during-write:"+bk.name, "%s", m.(string))
		return
	}
	stats.C.Case(reads.Load() > 0, stats.HashS(fmt.Sprint(bk.name, capacity, pre, over)), "read-during-write:"+bk.name)
}

func TestC18ReadDuringWrite(t *testing.T) { rapid.Check(t, c18ReadDuringWrite) }
