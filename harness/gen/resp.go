// Package gen holds rapid generators shared by the property checks.
package gen

import (
	"bytes"
	"fmt"
	"strconv"

	"pgregory.net/rapid"
)

// RV is the harness' own RESP value tree (independent of pkg/redis).
type RV struct {
	Kind  byte // '+', '-', ':', '$', '*'
	S     []byte
	IsNil bool
	I     int64
	Arr   []RV
}

// Encode is the reference RESP encoder (canonical encoding).
func (v RV) Encode(b *bytes.Buffer) {
	switch v.Kind {
	case '+', '-':
		b.WriteByte(v.Kind)
		b.Write(v.S)
		b.WriteString("\r\n")
	case ':':
		b.WriteByte(':')
		b.WriteString(strconv.FormatInt(v.I, 10))
		b.WriteString("\r\n")
	case '$':
		if v.IsNil {
			b.WriteString("$-1\r\n")
			return
		}
		fmt.Fprintf(b, "$%d\r\n", len(v.S))
		b.Write(v.S)
		b.WriteString("\r\n")
	case '*':
		if v.IsNil {
			b.WriteString("*-1\r\n")
			return
		}
		fmt.Fprintf(b, "*%d\r\n", len(v.Arr))
		for _, e := range v.Arr {
			e.Encode(b)
		}
	}
}

func (v RV) Bytes() []byte { var b bytes.Buffer; v.Encode(&b); return b.Bytes() }

func (v RV) Depth() int {
	d := 0
	for _, e := range v.Arr {
		if x := e.Depth(); x > d {
			d = x
		}
	}
	if v.Kind == '*' {
		return d + 1
	}
	return 0
}

func (v RV) String() string {
	switch v.Kind {
	case '+', '-':
		return fmt.Sprintf("%c%q", v.Kind, v.S)
	case ':':
		return fmt.Sprintf(":%d", v.I)
	case '$':
		if v.IsNil {
			return "$nil"
		}
		return fmt.Sprintf("$%q", v.S)
	default:
		if v.IsNil {
			return "*nil"
		}
		s := "*["
		for i, e := range v.Arr {
			if i > 0 {
				s += " "
			}
			s += e.String()
		}
		return s + "]"
	}
}

var intBoundaries = []int64{0, 1, -1, -1023, -1024, -1025, 524286, 524287, 524288, 524289, 1 << 31, -(1 << 31), 1<<63 - 1, -1 << 63, 9, 10, 99, 100}

func Int64Gen() *rapid.Generator[int64] {
	return rapid.OneOf(rapid.SampledFrom(intBoundaries), rapid.Int64(), rapid.Int64Range(-2000, 600000))
}

// LineBytes: bytes without CR and LF (simple strings / errors).
func LineBytes() *rapid.Generator[[]byte] {
	return rapid.Custom(func(t *rapid.T) []byte {
		n := rapid.IntRange(0, 12).Draw(t, "n")
		b := make([]byte, n)
		for i := range b {
			c := rapid.Byte().Draw(t, "c")
			if c == '\r' || c == '\n' {
				c = 'x'
			}
			b[i] = c
		}
		return b
	})
}

// Binary payloads biased to contain protocol look-alikes.
func Binary(max int) *rapid.Generator[[]byte] {
	return rapid.Custom(func(t *rapid.T) []byte {
		switch rapid.IntRange(0, 5).Draw(t, "bk") {
		case 0:
			return []byte{}
		case 1:
			return rapid.SampledFrom([][]byte{[]byte("\r\n"), []byte("\n"), []byte("$-1\r\n"), []byte("*2\r\n"), []byte("+OK\r\n"), []byte("\r"), {0}, {0xff, 0xfe}}).Draw(t, "look")
		case 2:
			return []byte(rapid.StringMatching(`[a-z0-9:{}_-]{1,12}`).Draw(t, "word"))
		default:
			return rapid.SliceOfN(rapid.Byte(), 0, max).Draw(t, "bin")
		}
	})
}

func RespValue(maxDepth int) *rapid.Generator[RV] {
	return rapid.Custom(func(t *rapid.T) RV { return drawRV(t, maxDepth) })
}

func drawRV(t *rapid.T, depth int) RV {
	k := rapid.IntRange(0, 9).Draw(t, "kind")
	if depth == 0 && k >= 7 {
		k = 4
	}
	switch k {
	case 0:
		return RV{Kind: '+', S: LineBytes().Draw(t, "s")}
	case 1:
		return RV{Kind: '-', S: LineBytes().Draw(t, "e")}
	case 2, 3:
		return RV{Kind: ':', I: Int64Gen().Draw(t, "i")}
	case 4, 5:
		return RV{Kind: '$', S: Binary(40).Draw(t, "b")}
	case 6:
		if rapid.Bool().Draw(t, "nilarr") {
			return RV{Kind: '*', IsNil: true}
		}
		return RV{Kind: '$', IsNil: true}
	default:
		n := rapid.IntRange(0, 4).Draw(t, "alen")
		v := RV{Kind: '*', Arr: make([]RV, 0, n)}
		for i := 0; i < n; i++ {
			v.Arr = append(v.Arr, drawRV(t, depth-1))
		}
		return v
	}
}
