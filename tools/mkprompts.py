#!/usr/bin/env python3
"""mkprompts.py <round n> <ids...>: scratch worktrees /tmp/wt<n>-<id>, prompts /tmp/seed-out<n>/<id>.prompt (with the summaries of earlier seeds)"""
import json, os, subprocess, glob, sys
n = sys.argv[1]
tmpl = open('/verif/tools/seed_prompt.tmpl').read()
props = {json.loads(l)['id']: json.loads(l) for l in open('/verif/properties.jsonl')}
os.makedirs('/tmp/seed-out%s' % n, exist_ok=True)
for pid in sys.argv[2:]:
    d = props[pid]
    wt = '/tmp/wt%s-%s' % (n, pid)
    out = '/tmp/seed-out%s/%s' % (n, pid)
    os.makedirs(out, exist_ok=True)
    if not os.path.exists(wt):
        subprocess.check_call(['git', '-C', '/repo', 'worktree', 'add', '-q', '--detach', wt, 'HEAD'])
    tried = []
    for m in sorted(glob.glob('/verif/seeded/%s-*m*/meta.json' % pid)):
        try:
            tried.append(json.load(open(m))['summary'])
        except Exception:
            pass
    p = tmpl
    for k, v in {'{wt}': wt, '{out}': out, '{pid}': pid, '{title}': d['title'], '{statement}': d['statement'],
                 '{quant}': d['quantifier']['text'], '{files}': ', '.join(d['anchors']['files'])}.items():
        p = p.replace(k, v)
    if tried:
        p += ("\n\nEarlier rounds already produced the following mutations for this property; choose DIFFERENT mechanisms "
              "(different code sites and different kinds of mistake):\n" + "\n".join(" - " + t for t in tried))
    p += ("\n\nNote: the existing tests in pkg/libs/io/pipe and pkg/libs/io/backlog write to the fixed paths /tmp/pipe.test and /tmp/backlog.test; "
          "other jobs on this machine run the same suite, so these two packages can fail spuriously. If they fail, re-run them alone before concluding anything.")
    open('/tmp/seed-out%s/%s.prompt' % (n, pid), 'w').write(p)
    print(pid, len(tried))
