//go:build verif

package props

import (
	conf "github.com/alibaba/RedisShake/redis-shake/configure"
	"verif/harness/logcap"
)

const (
	srcSentinel = "Zq7SrcPw-x9Kj3mVt5Yb"
	tgtSentinel = "Hw4TgtPw-r8Lp2nCs6Xd"
)

// baseConfig sets conf.Options to values that satisfy the post-conditions of the
// tool's option sanitiser (main/sanitize.go), which cannot be built on this tree.
func baseConfig() {
	o := &conf.Options
	*o = conf.Configuration{}
	o.Id = "verif"
	o.LogLevel = "debug"
	o.Parallel = 1
	o.SourceType = conf.RedisTypeStandalone
	o.TargetType = conf.RedisTypeStandalone
	o.SourceAuthType = "auth"
	o.TargetAuthType = "auth"
	o.SourcePasswordRaw = srcSentinel
	o.TargetPasswordRaw = tgtSentinel
	o.TargetVersion = "5.0.7"
	o.TargetReplace = true
	o.TargetDB = -1
	o.KeyExists = "none"
	o.BigKeyThreshold = 500 * 1024 * 1024
	o.SenderSize = 104857600
	o.SenderCount = 4095
	o.SenderDelayChannelSize = 65535
	o.KeepAlive = 0
	o.ScanKeyNumber = 50
	o.Qps = 200000
	o.Psync = true
	o.HttpProfile = 9320
	o.SourceRdbParallel = 1
	o.Metric = true
	logcap.Cap.SetSentinels(srcSentinel, tgtSentinel)
}
