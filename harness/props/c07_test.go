//go:build verif

package props

import (
	"bufio"
	"bytes"
	"fmt"
	"sort"
	"strings"
	"sync"
	"testing"
	"time"

	run "github.com/alibaba/RedisShake/redis-shake"
	conf "github.com/alibaba/RedisShake/redis-shake/configure"
	"pgregory.net/rapid"

	"verif/harness/gen"
	"verif/harness/logcap"
	"verif/harness/mredis"
	"verif/harness/netx"
	"verif/harness/ref"
	"verif/harness/stats"
)

// scheduler: holds every connection's next command at a gate and releases one pending
// connection at a time, the choice taken from a generated sequence.
type scheduler struct {
	mu      sync.Mutex
	pending map[int]chan struct{}
	script  []int
	i       int
	stop    chan struct{}
	order   []int // connection ids in release order
	// slow target: the release with this index (0-based) is held back for slowFor (longer than the tool's
	// one-second progress tick), so that the whole file has been read while entries are still unwritten
	slowAt  int
	slowFor time.Duration
}

func newScheduler(script []int) *scheduler {
	return &scheduler{pending: map[int]chan struct{}{}, script: script, stop: make(chan struct{})}
}

func (s *scheduler) gate(c *mredis.ConnState, argv [][]byte) {
	ch := make(chan struct{})
	s.mu.Lock()
	s.pending[c.ID] = ch
	s.mu.Unlock()
	select {
	case <-ch:
	case <-s.stop:
	}
}

func (s *scheduler) run(workers int, open func() int) {
	idle := 0
	started := false
	for {
		select {
		case <-s.stop:
			return
		default:
		}
		s.mu.Lock()
		n := len(s.pending)
		// start only when every worker has connected and sent its first command (or after ~20 ms);
		// afterwards release when every open connection is waiting at the gate (or after ~2 ms of quiescence)
		ready := false
		if !started {
			ready = n >= workers || idle >= 300
		} else {
			ready = n > 0 && (n >= open() || idle >= 30)
		}
		if ready && n > 0 {
			started = true
			ids := make([]int, 0, n)
			for id := range s.pending {
				ids = append(ids, id)
			}
			sort.Ints(ids)
			pick := ids[0]
			if len(s.script) > 0 {
				pick = ids[s.script[s.i%len(s.script)]%len(ids)]
				s.i++
			}
			if s.slowFor > 0 && len(s.order) == s.slowAt {
				s.mu.Unlock()
				select {
				case <-time.After(s.slowFor):
				case <-s.stop:
					return
				}
				s.mu.Lock()
			}
			close(s.pending[pick])
			delete(s.pending, pick)
			s.order = append(s.order, pick)
			idle = 0
			s.mu.Unlock()
			continue
		}
		s.mu.Unlock()
		idle++
		time.Sleep(60 * time.Microsecond)
	}
}

type c07Case struct {
	file        *gen.File
	mode        string // sync | restore
	parallel    int
	targetDB    int
	filt        filterConf
	policy      string
	existing    map[string]bool // "db/key" present on the target beforehand
	bigRoute    bool
	schedule    []int
	failKey     string // "db/key": the target answers this key's RESTORE with an error
	failMsg     string
	tk          targetKind // target version: decides whether RESTORE ... REPLACE is used (target.replace)
	unreachable bool       // nothing listens at the target address: every worker fails to connect
	failScript  bool       // the target answers SCRIPT LOAD with an error
	slow        bool       // the target holds back its slowAt-th reply for slowFor (default 1.25 s)
	slowAt      int
	slowFor     time.Duration
}

func (c *c07Case) String() string {
	return fmt.Sprintf("mode=%s parallel=%d target=%s(replace=%v) target.db=%d key_exists=%s bigRoute=%v filters=%+v records=%d dbs=%d existing=%d failKey=%q failMsg=%q slow=%v/%d unreachable=%v failScript=%v", c.mode, c.parallel, c.tk.version, targetReplaceRule(c.tk.version), c.targetDB, c.policy, c.bigRoute, c.filt, len(c.file.Records), c.file.NDBs, len(c.existing), c.failKey, c.failMsg, c.slow, c.slowAt, c.unreachable, c.failScript)
}

func drawC07(t *rapid.T) *c07Case {
	c := &c07Case{existing: map[string]bool{}}
	c.mode = rapid.SampledFrom([]string{"sync", "sync", "restore"}).Draw(t, "mode")
	c.targetDB = rapid.SampledFrom([]int{-1, -1, 0, 3}).Draw(t, "targetDB")
	c.file = gen.DrawFile(t, gen.FileOpts{MaxDBs: 6, MaxKeys: 6, MaxElems: 8, ClassicOnly: true, SmallDBs: true, UniqueKeys: c.targetDB != -1, KeyGen: filterKey(), NoEmpty: true, SingleHint: true})
	var keys []string
	for _, r := range c.file.Records {
		keys = append(keys, string(r.Key))
	}
	c.filt = drawFilterConf(t, c.mode == "sync", keys)
	c.parallel = rapid.IntRange(1, 8).Draw(t, "parallel")
	c.policy = rapid.SampledFrom([]string{"none", "rewrite", "ignore", "none"}).Draw(t, "policy")
	c.bigRoute = rapid.IntRange(0, 3).Draw(t, "bigRoute") == 0
	for _, r := range c.file.Records {
		if !r.IsLua && rapid.IntRange(0, 9).Draw(t, "exists") == 0 {
			c.existing[fmt.Sprintf("%d/%s", c.destDB(r), r.Key)] = true
		}
	}
	if !c.bigRoute && rapid.IntRange(0, 5).Draw(t, "inject") == 0 {
		var cands []string
		for _, r := range c.file.Records {
			if !r.IsLua && c.pass(r) && !c.existing[fmt.Sprintf("%d/%s", c.destDB(r), r.Key)] && r.Type != gen.TQuicklist {
				cands = append(cands, fmt.Sprintf("%d/%s", c.destDB(r), r.Key))
			}
		}
		if len(cands) > 0 {
			c.failKey = rapid.SampledFrom(cands).Draw(t, "failKey")
			c.failMsg = rapid.SampledFrom([]string{"ERR injected failure", "BUSY Redis is busy running a script. You can only call SCRIPT KILL or SHUTDOWN NOSAVE.",
				"LOADING Redis is loading the dataset in memory", "OOM command not allowed when used memory > 'maxmemory'.", "READONLY You can't write against a read only replica.",
				"MISCONF Redis is configured to save RDB snapshots, but it is currently not able to persist on disk."}).Draw(t, "failMsg")
		}
	}
	c.schedule = rapid.SliceOfN(rapid.IntRange(0, 7), 1, 24).Draw(t, "schedule")
	// 5.x: RESTORE ... REPLACE; 6.x: the tool's rule turns REPLACE off, rewrite becomes DEL + RESTORE
	// 3.2 / 4.0 targets reject the newer value encodings ("Bad data format": the tool falls back to writing the elements)
	c.tk = rapid.SampledFrom([]targetKind{targetKinds[3], targetKinds[3], targetKinds[5], targetKinds[1], targetKinds[2]}).Draw(t, "target")
	if rapid.IntRange(0, 19).Draw(t, "scriptLoadFails") == 11 {
		c.failScript = true
	}
	if rapid.IntRange(0, 59).Draw(t, "unreachableTarget") == 31 {
		c.unreachable = true
	}
	if rapid.IntRange(0, 79).Draw(t, "slowTarget") == 41 { // rare (rapid favours the bounds of a range, so the rare value sits in the middle)
		c.slow, c.slowAt = true, rapid.IntRange(0, 4).Draw(t, "slowAt")
	}
	return c
}

func (c *c07Case) destDB(r gen.Record) int {
	if c.targetDB != -1 {
		return c.targetDB
	}
	return int(r.DB)
}

// pass: reference filter decision for an RDB record in the full phase
func (c *c07Case) pass(r gen.Record) bool {
	if !c.filt.dbPass(int(r.DB)) {
		return false
	}
	if r.IsLua {
		return !c.filt.lua
	}
	k := string(r.Key)
	if isCheckpointKey(k) || !c.filt.listPass(k) {
		return false
	}
	if c.mode == "sync" && !c.filt.slotPass(k) {
		return false
	}
	return true
}

func c07Run(t *rapid.T) { c07Check(t, drawC07(t)) }

// c07Slow: every case has a slow target (one reply held back past the tool's one-second progress tick):
// the run must still not return before everything it read has been written.
func c07Slow(t *rapid.T) {
	c := drawC07(t)
	c.slow, c.slowAt, c.slowFor = true, rapid.IntRange(0, 3).Draw(t, "slowAt"), 2300*time.Millisecond // spans two progress ticks
	c07Check(t, c)
}

func c07Check(t fataler, c *c07Case) {
	o := &conf.Options
	c.filt.apply()
	o.Parallel, o.TargetDB, o.KeyExists = c.parallel, c.targetDB, c.policy
	if c.tk.version == "" {
		c.tk = targetKinds[3]
	}
	o.TargetVersion, o.TargetReplace, o.BigKeyThreshold = c.tk.version, targetReplaceRule(c.tk.version), 500*1024*1024
	if c.bigRoute {
		o.BigKeyThreshold = 1
	}
	defer func() {
		resetFilters()
		o.Parallel, o.TargetDB, o.KeyExists, o.BigKeyThreshold = 1, -1, "none", 500*1024*1024
		o.TargetVersion, o.TargetReplace = "5.0.7", true
	}()
	defer quietLog()()
	srv := newTarget(c.tk)
	defer srv.Close()
	sentinel := gen.Value{Kind: "string", Str: []byte("pre-existing value")}
	for k := range c.existing {
		parts := strings.SplitN(k, "/", 2)
		var db int
		fmt.Sscanf(parts[0], "%d", &db)
		srv.Put(db, parts[1], mredis.FromValue(sentinel))
	}
	for _, r := range c.file.Records {
		if !r.IsLua {
			srv.Register(gen.Payload(r.Type, r.ValBytes, gen.DumpVersion), *r.Logical)
		}
	}
	if c.failScript && c.failKey == "" {
		srv.Hook = func(cs *mredis.ConnState, argv [][]byte) *mredis.Reply {
			if strings.EqualFold(string(argv[0]), "script") {
				r := mredis.Err("OOM command not allowed when used memory > 'maxmemory'.")
				return &r
			}
			return nil
		}
	}
	if c.failKey != "" {
		srv.Hook = func(cs *mredis.ConnState, argv [][]byte) *mredis.Reply {
			if strings.EqualFold(string(argv[0]), "restore") && fmt.Sprintf("%d/%s", cs.DB, argv[1]) == c.failKey {
				msg := c.failMsg
				if msg == "" {
					msg = "ERR injected failure"
				}
				r := mredis.Err(msg)
				return &r
			}
			return nil
		}
	}
	sch := newScheduler(c.schedule)
	if c.slow {
		sch.slowAt, sch.slowFor = c.slowAt, 1250*time.Millisecond
		if c.slowFor > 0 {
			sch.slowFor = c.slowFor
		}
	}
	srv.Gate = sch.gate
	go sch.run(c.parallel, srv.NumConns)
	defer close(sch.stop)
	desc := c.String()
	var serr error
	reader := bufio.NewReaderSize(bytes.NewReader(c.file.Bytes), 4096)
	var res logcap.Result
	var done <-chan logcap.Result
	gidCh := make(chan int64, 1)
	targetAddr := srv.Addr()
	if c.unreachable {
		// fault: a port nobody listens on (connection refused for every worker)
		ln, err := netx.Listen()
		if err != nil {
			t.Fatalf("harness: %v", err)
		}
		targetAddr = ln.Addr().String()
		ln.Close()
	}
	if c.mode == "sync" {
		ds := newSyncer(0)
		done = logcap.Start(func() {
			gidCh <- logcap.Gid()
			serr = ds.VerifSyncRDBFile(reader, []string{targetAddr}, "auth", tgtSentinel, int64(len(c.file.Bytes)), false)
		})
	} else {
		done = logcap.Start(func() {
			gidCh <- logcap.Gid()
			run.VerifRestoreRDBFile(0, reader, []string{targetAddr}, "auth", tgtSentinel, int64(len(c.file.Bytes)), false)
		})
	}
	gid := <-gidCh
	select {
	case res = <-done:
	case <-time.After(30 * time.Second):
		// the model target answers at once and the gate releases every command: a run that is still going
		// after 30 s is not going to return (e.g. it retries the same command for ever)
		nlog := len(srv.LogCopy())
		srv.Close()
		violation(t, "C07", "no-return:"+c.mode, "%s: the run did not return within 30 s (the target has received %d commands so far)", desc, nlog)
		return
	}
	if c.mode == "sync" {
		if ab := logcap.Cap.TakeAbortsOf(func(a logcap.Abort) bool { return a.Parent == gid }); len(ab) > 0 && res.Completed {
			res.Completed, res.Aborted, res.AbortMsg = false, true, ab[0].Msg
		}
	} else {
		// restore-mode workers are grandchildren of the harness goroutine: collect their aborts by message
		if ab := logcap.Cap.TakeAbortsOf(func(a logcap.Abort) bool {
			return strings.Contains(a.Msg, "restore") || strings.Contains(a.Msg, "flush command") || strings.Contains(a.Msg, "routine[") || strings.Contains(a.Msg, "parse rdb")
		}); len(ab) > 0 {
			res.Completed, res.Aborted, res.AbortMsg = false, true, ab[0].Msg
		}
	}
	// snapshot at return time: nothing may still be in flight
	log := srv.LogCopy()
	// expected outcome
	expectFailure := false
	type want struct {
		rec   gen.Record
		write bool // must have been written (exactly once)
	}
	wants := map[string]want{}
	nScripts := 0
	for _, r := range c.file.Records {
		if !c.pass(r) {
			continue
		}
		if r.IsLua {
			nScripts++
			continue
		}
		k := fmt.Sprintf("%d/%s", c.destDB(r), r.Key)
		w := want{rec: r, write: true}
		if c.existing[k] {
			switch c.policy {
			case "none":
				expectFailure = true
				w.write = false
			case "ignore":
				w.write = false
			}
		}
		wants[k] = w
	}
	failed := serr != nil || !res.Completed
	if c.failKey != "" {
		expectFailure = true
	}
	if c.failScript && c.failKey == "" && nScripts > 0 && !c.unreachable {
		// a script that passes the filters is sent with SCRIPT LOAD; the target rejected it
		if !failed {
			violation(t, "C07", "failure-not-reported:script-load:"+c.mode, "%s: the target answered SCRIPT LOAD with an error (%d scripts pass the filters), yet the run finished as a success", desc, nScripts)
			return
		}
		stats.C.Case(c.parallel >= 2, stats.HashS(desc+fmt.Sprint(c.schedule)), "mode:"+c.mode, "script-load-rejected")
		return
	}
	if c.unreachable {
		if !failed {
			violation(t, "C07", "failure-not-reported:unreachable-target:"+c.mode, "%s: nothing listens at the target address, no key can have been written, yet the run finished as a success", desc)
			return
		}
		stats.C.Case(c.parallel >= 2, stats.HashS(desc+fmt.Sprint(c.schedule)), "mode:"+c.mode, "unreachable-target")
		return
	}
	if expectFailure {
		if !failed {
			sig := "failure-not-reported:" + c.mode
			violation(t, "C07", sig, "%s: a restore failed (busy key under key_exists=none, or injected error reply for %q), yet the run finished as a success", desc, c.failKey)
		}
		stats.C.Case(c.parallel >= 2, stats.HashS(desc+fmt.Sprint(c.schedule)), "mode:"+c.mode, "expected-failure")
		return
	}
	if failed {
		violation(t, "C07", "unexpected-failure:"+c.mode, "%s: run failed: err=%v %v", desc, serr, res)
		return
	}
	if len(srv.UnknownPayloads) > 0 {
		violation(t, "C07", "payload-altered", "%s: %v", desc, srv.UnknownPayloads)
		return
	}
	// every expected key present with the source value, in the right db
	for k, w := range wants {
		db := c.destDB(w.rec)
		got := srv.Get(db, string(w.rec.Key))
		if !w.write {
			if got == nil || got.Same(mredis.FromValue(sentinel)) != "" {
				violation(t, "C07", "existing-touched:"+c.policy, "%s: existing key %s was modified under key_exists=%s", desc, k, c.policy)
				return
			}
			continue
		}
		if got == nil {
			violation(t, "C07", "key-missing:"+c.mode, "%s: key %q of source db %d is not in target db %d at return time\nrelease order %v", desc, w.rec.Key, w.rec.DB, db, sch.order)
			return
		}
		if w.rec.Logical.Kind != "string" && w.rec.Logical.Len() == 0 {
			continue
		}
		if d := got.Same(mredis.FromValue(*w.rec.Logical)); d != "" {
			violation(t, "C07", "value:"+c.mode, "%s: key %s: %s", desc, k, d)
			return
		}
	}
	// nothing else was written, each key exactly once, scripts loaded once
	writes := map[string]int{}
	scripts := 0
	for _, cm := range log {
		switch cm.Name {
		case "restore":
			if !cm.Reply.IsError() {
				writes[fmt.Sprintf("%d/%s", cm.DB, cm.Argv[1])]++
			}
		case "script":
			scripts++
		case "set", "rpush", "hset", "sadd", "zadd":
			writes[fmt.Sprintf("%d/%s", cm.DB, cm.Argv[1])] += 0 // element writes: counted through the key's presence
			if _, ok := wants[fmt.Sprintf("%d/%s", cm.DB, cm.Argv[1])]; !ok {
				violation(t, "C07", "unexpected-write:"+c.mode, "%s: %s writes a key that is filtered or not in the RDB", desc, cm)
				return
			}
		}
	}
	for k, n := range writes {
		w, ok := wants[k]
		if !ok || !w.write {
			violation(t, "C07", "unexpected-write:"+c.mode, "%s: key %s was restored although it is filtered / must be left alone", desc, k)
			return
		}
		if n > 1 {
			violation(t, "C07", "written-twice:"+c.mode, "%s: key %s was restored %d times", desc, k, n)
			return
		}
	}
	for db := 0; db < 16; db++ {
		for _, k := range srv.Keys(db) {
			id := fmt.Sprintf("%d/%s", db, k)
			if _, ok := wants[id]; !ok && !c.existing[id] {
				violation(t, "C07", "unexpected-key:"+c.mode, "%s: target db %d holds key %q which is filtered / belongs elsewhere", desc, db, k)
				return
			}
		}
	}
	if scripts != nScripts {
		sig := "scripts:" + c.mode
		if scripts < nScripts && (c.filt.hasKeyFilter() || len(c.filt.slots) > 0) {
			sig = "scripts-dropped-by-key-or-slot-filter:" + c.mode
		}
		if violation(t, "C07", sig, "%s: %d SCRIPT LOAD commands, the RDB holds %d scripts that pass the filters (filter.lua=%v)", desc, scripts, nScripts, c.filt.lua) {
			return
		}
	}
	dbsUsed := map[int]bool{}
	conns := map[int]bool{}
	for _, cm := range log {
		switch cm.Name {
		case "restore", "set", "rpush", "hset", "sadd", "zadd":
			dbsUsed[cm.DB] = true
			conns[cm.Conn] = true
		}
	}
	nt := c.parallel >= 2 && len(dbsUsed) >= 3 && len(conns) >= 2
	cls := []string{"mode:" + c.mode, fmt.Sprintf("parallel=%d", c.parallel), fmt.Sprintf("conns-used=%d", len(conns)), "target:" + c.tk.version}
	if c.slow && len(sch.order) > c.slowAt {
		cls = append(cls, "slow-target:"+c.mode)
	}
	stats.C.Case(nt, stats.HashS(desc+fmt.Sprint(c.schedule, sch.order)), cls...)
	if nt && len(c.file.Records) < 12 {
		stats.C.Sample(fmt.Sprintf("%s schedule=%v release-order=%v", desc, c.schedule, sch.order))
	}
}

func TestC07Slow(t *testing.T) { rapid.Check(t, c07Slow) }

func TestC07(t *testing.T) { rapid.Check(t, c07Run) }

func TestC07Regress(t *testing.T) {
	sv := gen.Value{Kind: "string", Str: []byte("v")}
	val := gen.AppendRawString(nil, []byte("v"))
	script := []byte("return 1")
	mkFile := func() *gen.File {
		b := []byte("REDIS0009")
		b = append(b, gen.OpAux)
		b = gen.AppendRawString(b, []byte("lua"))
		b = gen.AppendRawString(b, script)
		b = append(b, gen.OpSelectDB, 0, gen.TString)
		b = gen.AppendRawString(b, []byte("a:key"))
		b = append(b, val...)
		b = append(b, gen.OpEOF)
		return &gen.File{Version: 9, Bytes: appendCRC(b), NDBs: 1, Labels: map[string]bool{}, Records: []gen.Record{
			{Key: []byte("lua"), Type: gen.OpAux, ValBytes: script, IsLua: true},
			{DB: 0, Key: []byte("a:key"), Type: gen.TString, ValBytes: val, Logical: &sv, Label: "string"}}}
	}
	// fixed D13: restore mode must report a failed restore (busy key under key_exists=none)
	c07Check(t, &c07Case{file: mkFile(), mode: "restore", parallel: 1, targetDB: -1, policy: "none", existing: map[string]bool{"0/a:key": true}, schedule: []int{0}})
	// fixed D19: scripts are not subject to the key whitelist / slot list
	c07Check(t, &c07Case{file: mkFile(), mode: "sync", parallel: 2, targetDB: -1, policy: "none", existing: map[string]bool{}, schedule: []int{1, 0}, filt: filterConf{keyWhite: []string{"a"}}})
	c07Check(t, &c07Case{file: mkFile(), mode: "restore", parallel: 1, targetDB: -1, policy: "none", existing: map[string]bool{}, schedule: []int{0}, filt: filterConf{keyWhite: []string{"a"}}})
	c07Check(t, &c07Case{file: mkFile(), mode: "sync", parallel: 1, targetDB: -1, policy: "none", existing: map[string]bool{}, schedule: []int{0}, filt: filterConf{slots: []string{fmt.Sprint(ref.Slot([]byte("a:key")))}}})
}
