package ref

import (
	"bytes"
	"testing"

	"pgregory.net/rapid"
)

func TestCheckValues(t *testing.T) {
	if v := CRC64(0, []byte("123456789")); v != 0xe9c6d914c4b8d9ca {
		t.Fatalf("crc64 check value %x", v)
	}
	if v := CRC64Bitwise(0, []byte("123456789")); v != 0xe9c6d914c4b8d9ca {
		t.Fatalf("crc64 bitwise check value %x", v)
	}
	if a, b := CRC64(0x1234, []byte("hello, world \x00\xff")), CRC64Bitwise(0x1234, []byte("hello, world \x00\xff")); a != b {
		t.Fatalf("table %x bitwise %x", a, b)
	}
	if v := CRC16([]byte("123456789")); v != 0x31C3 {
		t.Fatalf("crc16 check value %x", v)
	}
	// examples from the Redis Cluster specification / redis-cli CLUSTER KEYSLOT
	for k, want := range map[string]int{"foo": 12182, "{user1000}.following": 3443, "{user1000}.followers": 3443,
		"foo{}{bar}": 8363, "foo{{bar}}zap": 4015, "foo{bar}{zap}": 5061, "": 0} {
		if got := Slot([]byte(k)); got != want {
			t.Fatalf("slot(%q)=%d want %d", k, got, want)
		}
	}
}

func TestLZFSelf(t *testing.T) {
	rapid.Check(t, func(t *rapid.T) {
		unit := rapid.SliceOfN(rapid.Byte(), 1, 6).Draw(t, "unit")
		rep := rapid.IntRange(1, 400).Draw(t, "rep")
		in := bytes.Repeat(unit, rep)
		in = append(in, rapid.SliceOfN(rapid.Byte(), 0, 40).Draw(t, "tail")...)
		for _, c := range [][]byte{LZFCompress(in), LZFLiteral(in)} {
			if c == nil {
				continue
			}
			out, ok := LZFDecompress(c, len(in))
			if !ok || !bytes.Equal(out, in) {
				t.Fatalf("lzf self check failed for %d bytes", len(in))
			}
		}
	})
}
