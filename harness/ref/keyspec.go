package ref

// KeySpec: first/last/step key positions of the write commands, transcribed from the
// Redis 5.0 command table (server.c, redisCommandTable). Redis convention: positions
// count the command name as argument 0; a negative last counts from the end (-1 = last
// argument). This table is NOT derived from the repository's table.
type KeySpec struct{ First, Last, Step int }

var KeySpecs = map[string]KeySpec{
	"set": {1, 1, 1}, "setnx": {1, 1, 1}, "setex": {1, 1, 1}, "psetex": {1, 1, 1}, "append": {1, 1, 1},
	"del": {1, -1, 1}, "unlink": {1, -1, 1},
	"setbit": {1, 1, 1}, "bitfield": {1, 1, 1}, "setrange": {1, 1, 1}, "incr": {1, 1, 1}, "decr": {1, 1, 1},
	"rpush": {1, 1, 1}, "lpush": {1, 1, 1}, "rpushx": {1, 1, 1}, "lpushx": {1, 1, 1}, "linsert": {1, 1, 1},
	"rpop": {1, 1, 1}, "lpop": {1, 1, 1},
	"brpop": {1, -2, 1}, "blpop": {1, -2, 1}, "brpoplpush": {1, 2, 1}, "rpoplpush": {1, 2, 1},
	"lset": {1, 1, 1}, "ltrim": {1, 1, 1}, "lrem": {1, 1, 1},
	"sadd": {1, 1, 1}, "srem": {1, 1, 1}, "smove": {1, 2, 1}, "spop": {1, 1, 1},
	"sinterstore": {1, -1, 1}, "sunionstore": {1, -1, 1}, "sdiffstore": {1, -1, 1},
	"zadd": {1, 1, 1}, "zincrby": {1, 1, 1}, "zrem": {1, 1, 1}, "zremrangebyscore": {1, 1, 1}, "zremrangebyrank": {1, 1, 1}, "zremrangebylex": {1, 1, 1},
	"hset": {1, 1, 1}, "hsetnx": {1, 1, 1}, "hmset": {1, 1, 1}, "hincrby": {1, 1, 1}, "hincrbyfloat": {1, 1, 1}, "hdel": {1, 1, 1},
	"incrby": {1, 1, 1}, "decrby": {1, 1, 1}, "incrbyfloat": {1, 1, 1}, "getset": {1, 1, 1},
	"mset": {1, -1, 2}, "msetnx": {1, -1, 2},
	"move": {1, 1, 1}, "rename": {1, 2, 1}, "renamenx": {1, 2, 1},
	"expire": {1, 1, 1}, "expireat": {1, 1, 1}, "pexpire": {1, 1, 1}, "pexpireat": {1, 1, 1}, "persist": {1, 1, 1},
	"restore": {1, 1, 1}, "restore-asking": {1, 1, 1},
	"bitop": {2, -1, 1}, "geoadd": {1, 1, 1}, "pfadd": {1, 1, 1}, "pfmerge": {1, -1, 1},
}

// KeyIndexes returns the indexes (into args, which excludes the command name) of the key
// arguments of a command with len(args) arguments.
func (k KeySpec) KeyIndexes(nargs int) []int {
	argc := nargs + 1
	last := k.Last
	if last < 0 {
		last = argc + last
	}
	var out []int
	for j := k.First; j <= last && j < argc; j += k.Step {
		out = append(out, j-1)
	}
	return out
}

// Rewrite is the reference key-filter rewrite from the property statement: keep the
// leading non-key arguments, every passing key with its companions (step-1 following
// arguments) in the original order, and the trailing non-key arguments. ok=false when
// no key passes.
func (k KeySpec) Rewrite(args [][]byte, pass func(key []byte) bool) (out [][]byte, ok bool) {
	idx := k.KeyIndexes(len(args))
	if len(idx) == 0 {
		return args, true
	}
	out = append(out, args[:idx[0]]...)
	n := 0
	for _, i := range idx {
		if pass(args[i]) {
			n++
			end := i + k.Step
			if end > len(args) {
				end = len(args)
			}
			out = append(out, args[i:end]...)
		}
	}
	tail := idx[len(idx)-1] + k.Step
	if tail < len(args) {
		out = append(out, args[tail:]...)
	}
	return out, n > 0
}
